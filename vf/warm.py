"""Import, in the parent, everything a World needs, so forked children start hot."""

import importlib
import os

from . import repo_first


def warm(ha: bool = True):
    repo_first()
    import custom_components.pyscript  # noqa: F401
    import custom_components.pyscript.decorators  # noqa: F401

    if not ha:
        return
    from . import fakes, sim  # noqa: F401

    path = os.path.join(os.path.dirname(__file__), "warm_modules.txt")
    try:
        with open(path, encoding="utf-8") as f:
            names = [ln.strip() for ln in f if ln.strip()]
    except OSError:
        names = []
    for name in names:
        try:
            importlib.import_module(name)
        except Exception:  # noqa: BLE001
            pass
    sim.snapshot_pristine()
