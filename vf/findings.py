"""known_findings.json handling (DESIGN 1.7).  The file is never written at run time."""

from __future__ import annotations

import json
import os

from . import VERIF

PATH = os.path.join(VERIF, "known_findings.json")


def load(pid: str):
    if not os.path.exists(PATH):
        return []
    with open(PATH, encoding="utf-8") as f:
        data = json.load(f)
    return [e for e in data.get("findings", []) if e.get("property") == pid]


def match(known, mech, features):
    """A violation is a known finding iff its mechanism key is listed as `known` and the
    case carries the finding's gate feature (when the finding names one)."""
    for k in known:
        if k.get("status") != "known":
            continue
        if k["key"] != mech:
            continue
        gate = k.get("gate")
        if gate and gate not in features:
            continue
        return k
    return None
