"""Driver: ./check <ID> [--tier quick|thorough] [--replay FILE] [--seed N] [--jobs N] [--budget S]."""

from __future__ import annotations

import argparse
import hashlib
import importlib
import json
import os
import random
import sys
import time

from . import REPO, VERIF, repo_first
from . import findings as F
from .pool import confirm_cases, run_cases

MAX_REPLAYS = 12


def canon(case) -> str:
    return json.dumps(case, sort_keys=True, default=repr)


def case_hash(case) -> str:
    return hashlib.sha1(canon(case).encode()).hexdigest()[:16]


def merge_cover(dst: dict, src: dict):
    for table, cells in (src or {}).items():
        d = dst.setdefault(table, {})
        if isinstance(cells, dict):
            for k, v in cells.items():
                d[k] = d.get(k, 0) + int(v)
        else:
            for k in cells:
                d[k] = d.get(k, 0) + 1


def _prune_stale_scratch():
    """Scratch config dirs of cases whose worker was killed (timeouts, end of a run) are left behind: remove old ones."""
    import shutil
    import time

    from .sim import _tmp_base

    base = _tmp_base() or "/tmp"
    try:
        for name in os.listdir(base):
            if name.startswith(("vfw-", "vfc11-", "vfc18-")):
                path = os.path.join(base, name)
                if time.time() - os.path.getmtime(path) > 1800:
                    shutil.rmtree(path, ignore_errors=True)
    except OSError:
        pass


def main(argv=None):
    _prune_stale_scratch()
    ap = argparse.ArgumentParser()
    ap.add_argument("id")
    ap.add_argument("--tier", default=os.environ.get("VERIF_TIER", "quick"), choices=["quick", "thorough"])
    ap.add_argument("--seed", type=int, default=int(os.environ.get("VERIF_SEED", "0")))
    ap.add_argument("--replay")
    ap.add_argument("--jobs", type=int, default=int(os.environ.get("VERIF_JOBS", "0")) or None)
    ap.add_argument("--budget", type=float, default=None, help="override generation time budget (s)")
    ap.add_argument("--no-evidence", action="store_true")
    args = ap.parse_args(argv)

    repo_first()
    pid = args.id.upper()
    mod = importlib.import_module(f"vf.checks.{pid.lower()}")
    t_start = time.time()
    modname = mod.__name__

    if args.replay:
        with open(args.replay, encoding="utf-8") as f:
            rep = json.load(f)
        case = rep.get("case", rep)
        res = {}

        def got(c, r):
            res.update(r)

        run_cases(modname, [case], jobs=1, timeout=getattr(mod, "TIMEOUT", 60) * 4, on_result=got)
        print(json.dumps(res, indent=1, default=repr)[:20000])
        if res.get("verdict") == "violated":
            print(f"VIOLATION property={pid} replay={args.replay}")
            return 1
        return 0 if res.get("verdict") == "held" else 2

    known = F.load(pid)
    gated = {k["gate"] for k in known if k["status"] == "known" and k.get("gate")}
    tier, seed = args.tier, args.seed
    budget = args.budget or mod.BUDGET[tier]
    deadline = t_start + budget

    agg = {
        "evaluations": 0,
        "held": 0,
        "violated": 0,
        "inconclusive": 0,
        "known_hits": {},
        "nontrivial_keys": set(),
        "all_keys": set(),
        "obs": {},
        "cover": {},
        "sigs": set(),
        "samples": [],
        "inconclusive_reasons": {},
        "violations": [],
        "foreign": {},
    }
    known_lines = []
    rng = random.Random(seed)

    # 1. witnesses of known findings: re-run, report those that still fail
    witnesses = []
    for k in known:
        if k["status"] == "known" and k.get("witness") is not None:
            c = dict(k["witness"])
            c["_witness_of"] = k["key"]
            witnesses.append(c)
    wres = {}

    def got_w(c, r):
        wres[c["_witness_of"]] = r

    if witnesses:
        run_cases(modname, witnesses, jobs=min(len(witnesses), args.jobs or 16), timeout=getattr(mod, "TIMEOUT", 60), on_result=got_w)
    for k in known:
        if k["status"] != "known":
            continue
        r = wres.get(k["key"])
        if r is None:
            continue
        mechs = {v.get("mech") for v in r.get("violations", [])}
        if r.get("verdict") == "violated" and k["key"] in mechs:
            line = f"KNOWN-FINDING: property={pid} {k['key']}: {k['what']}"
            print(line)
            known_lines.append(line)
            other = mechs - {k["key"]}
            if other:
                # the witness shows something else as well: that is new
                agg["violations"].append({"case": k["witness"], "result": r, "mechs": sorted(other)})
        elif r.get("verdict") == "inconclusive":
            agg["inconclusive"] += 1
            agg["inconclusive_reasons"]["witness:" + str(r.get("why"))[:80]] = 1

    # 2. main stream
    def on_result(case, res):
        units = res.get("units")
        agg["evaluations"] += units if units is not None else 1
        key = case_hash(case)
        if units is None:
            agg["all_keys"].add(key)
        else:
            agg["all_keys"].update(res.get("unit_keys", []))
            agg["nontrivial_keys"].update(res.get("nontrivial_keys", []))
            nv_ = len(res.get("violations", []))
            agg["held"] += max(0, units - nv_ - (0 if nv_ else 1))
        verdict = res.get("verdict", "inconclusive")
        for k_, v_ in (res.get("obs") or {}).items():
            if isinstance(v_, (int, float)):
                agg["obs"][k_] = agg["obs"].get(k_, 0) + v_
        merge_cover(agg["cover"], res.get("cover"))
        for s in res.get("sigs") or ([res["sig"]] if res.get("sig") else []):
            agg["sigs"].add(s)
        for k_, v_ in (res.get("foreign") or {}).items():
            agg["foreign"][k_] = agg["foreign"].get(k_, 0) + v_
        if verdict == "inconclusive":
            agg["inconclusive"] += 1
            why = str(res.get("why"))[:100]
            agg["inconclusive_reasons"][why] = agg["inconclusive_reasons"].get(why, 0) + 1
            return
        if res.get("nontrivial"):
            agg["nontrivial_keys"].add(key)
        if len(agg["samples"]) < 4 and res.get("nontrivial") and (agg["evaluations"] % 7 == 1 or len(agg["samples"]) < 2):
            agg["samples"].append(mod.sample(case, res) if hasattr(mod, "sample") else case)
        if verdict == "held":
            agg["held"] += 1
            return
        # violated: split into known and new
        feats = set(case.get("features", [])) | set(res.get("features", []))
        new = []
        for v in res.get("violations", []):
            kf = F.match(known, v.get("mech"), feats)
            if kf is not None:
                agg["known_hits"][kf["key"]] = agg["known_hits"].get(kf["key"], 0) + 1
            else:
                new.append(v)
        if new and units is not None:
            # batch result: every violation carries its own single-unit replay case
            for v in new:
                agg["violated"] += 1
                rc_ = v.get("replay_case", case)
                agg["violations"].append({"case": rc_, "result": {"verdict": "violated", "violations": [v]}, "mechs": [str(v.get("mech"))]})
        elif new:
            agg["violated"] += 1
            agg["violations"].append({"case": case, "result": res, "mechs": sorted({str(v.get("mech")) for v in new})})
        else:
            agg["held"] += 1

    gen = mod.generate(tier, seed, gated=gated) if _accepts_gated(mod.generate) else mod.generate(tier, seed)
    # the quick tier runs a fixed number of generated cases (the time budget is only a safety cap), so the amount of work
    # -- and with it the evidence -- does not depend on the speed of the machine
    ncases = getattr(mod, "QUICK_CASES", None) if tier == "quick" and args.budget is None else None
    if os.environ.get("VERIF_CASES"):
        ncases = int(os.environ["VERIF_CASES"])
    if ncases:
        import itertools

        gen = itertools.islice(gen, ncases)
        deadline = t_start + max(budget, getattr(mod, "QUICK_CAP", 420))
    stats = run_cases(
        modname,
        gen,
        jobs=args.jobs,
        timeout=getattr(mod, "TIMEOUT", 60),
        batch=getattr(mod, "BATCH", 1),
        deadline=deadline,
        on_result=on_result,
        hashseeds=getattr(mod, "HASHSEEDS", {}).get(tier),
    )

    # 2b. confirmation: every violated case is re-run alone in a brand-new interpreter; only what
    # reproduces there is reported (cases share a worker process in the main stream)
    unconfirmed = 0
    if agg["violations"]:
        todo = agg["violations"][: 3 * MAX_REPLAYS]
        conf = confirm_cases(modname, [v["case"] for v in todo], timeout=getattr(mod, "TIMEOUT", 60) * 2, jobs=args.jobs)
        kept = []
        for v, r in zip(todo, conf):
            mechs2 = {str(x.get("mech")) for x in (r or {}).get("violations", [])}
            if r and r.get("verdict") == "violated" and (set(v["mechs"]) & mechs2):
                v["confirmed"] = True
                v["result"] = r
                kept.append(v)
            else:
                unconfirmed += 1
                agg["inconclusive_reasons"]["violation not reproduced in a fresh interpreter"] = (
                    agg["inconclusive_reasons"].get("violation not reproduced in a fresh interpreter", 0) + 1
                )
        agg["violations"] = kept + agg["violations"][3 * MAX_REPLAYS :]
        agg["violated"] -= unconfirmed
        agg["inconclusive"] += unconfirmed

    # 3. verdict
    rc = 0
    out_lines = []
    seen_mechs = set()
    rdir = os.path.join(os.environ.get("VERIF_REPLAY_DIR") or os.path.join(VERIF, "replays"), pid)
    if os.path.isdir(rdir):
        for fn in os.listdir(rdir):
            if fn.startswith(f"{tier}-{seed}-"):
                os.remove(os.path.join(rdir, fn))
    nrep = 0
    for i, v in enumerate(agg["violations"]):
        mk = ",".join(v["mechs"])
        if mk in seen_mechs and nrep >= 3:
            continue
        if nrep >= MAX_REPLAYS:
            break
        seen_mechs.add(mk)
        os.makedirs(rdir, exist_ok=True)
        path = os.path.join(rdir, f"{tier}-{seed}-{nrep}.json")
        with open(path, "w", encoding="utf-8") as f:
            json.dump({"property": pid, "mechs": v["mechs"], "case": v["case"], "result": v["result"]}, f, indent=1, default=repr)
        out_lines.append(f"VIOLATION property={pid} replay={path}")
        nrep += 1
        rc = 1
    floor = mod.FLOOR[tier]
    conclusive = agg["held"] + agg["violated"]
    reach_missing = []
    for name in getattr(mod, "REQUIRED_OBS", []):
        if agg["obs"].get(name, 0) <= 0:
            reach_missing.append(name)
    if rc == 0:
        if conclusive < floor:
            out_lines.append(
                f"INCONCLUSIVE property={pid} reason=only {conclusive} conclusive cases (floor {floor}); "
                f"inconclusive={agg['inconclusive']} {list(agg['inconclusive_reasons'].items())[:3]}"
            )
            rc = 2
        elif reach_missing:
            out_lines.append(f"INCONCLUSIVE property={pid} reason=monitors never reached: {reach_missing}")
            rc = 2
        elif agg["inconclusive"] > max(5, 0.05 * agg["evaluations"]):
            out_lines.append(
                f"INCONCLUSIVE property={pid} reason={agg['inconclusive']} of {agg['evaluations']} cases inconclusive "
                f"{list(agg['inconclusive_reasons'].items())[:3]}"
            )
            rc = 2

    wall = time.time() - t_start
    cover_out = {}
    for table, cells in agg["cover"].items():
        items = sorted(cells.items(), key=lambda kv: (-kv[1], kv[0]))
        cover_out[table] = {"distinct": len(items), "top": dict(items[:40])}
    evidence = {
        "property_id": pid,
        "tier": tier,
        "seed": seed,
        "level": getattr(mod, "LEVEL", "exploration"),
        "coverage": {
            "evaluations": agg["evaluations"],
            "distinct_nontrivial": len(agg["nontrivial_keys"]),
            "distinct_cases": len(agg["all_keys"]),
            "rule": mod.RULE,
            "samples": agg["samples"] or [],
            "held": agg["held"],
            "violated": agg["violated"],
            "inconclusive": agg["inconclusive"],
            "inconclusive_reasons": agg["inconclusive_reasons"],
            "observed": {k: (round(v, 3) if isinstance(v, float) else v) for k, v in sorted(agg["obs"].items())},
            "coverage_tables": cover_out,
            "distinct_signatures": len(agg["sigs"]),
            "known_finding_lines": known_lines,
            "known_finding_hits_in_stream": agg["known_hits"],
            "gated_features": sorted(gated),
            "foreign_contract_events": agg["foreign"],
            "pool": stats,
            "repo": REPO,
            "exhaustive": bool(getattr(mod, "EXHAUSTIVE", {}).get(tier, False)) and not stats["cut_by_deadline"],
            "exhaustive_subspaces": getattr(mod, "EXHAUSTIVE_SUBSPACES", {}).get(tier, []),
        },
        "assumptions": list(getattr(mod, "ASSUMPTIONS", [])),
        "wall_s": round(wall, 2),
        "violations": agg["violated"],
    }
    if not args.no_evidence:
        os.makedirs(os.path.join(VERIF, "evidence"), exist_ok=True)
        with open(os.path.join(VERIF, "evidence", f"{pid}.json"), "w", encoding="utf-8") as f:
            json.dump(evidence, f, indent=1, default=repr)
            f.write("\n")

    print(
        f"[{pid}] tier={tier} seed={seed} cases={agg['evaluations']} held={agg['held']} violated={agg['violated']} "
        f"inconclusive={agg['inconclusive']} distinct_nontrivial={len(agg['nontrivial_keys'])} "
        f"sigs={len(agg['sigs'])} known_hits={agg['known_hits']} wall={wall:.1f}s"
    )
    obs_s = ", ".join(f"{k}={int(v) if float(v).is_integer() else round(v,2)}" for k, v in sorted(agg["obs"].items()))
    print(f"[{pid}] observed: {obs_s}")
    if agg["foreign"]:
        print(f"[{pid}] note: foreign contract events {agg['foreign']}")
    for line in out_lines:
        print(line)
    return rc


def _accepts_gated(fn):
    import inspect

    return "gated" in inspect.signature(fn).parameters


if __name__ == "__main__":
    sys.exit(main())
