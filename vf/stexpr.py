"""Structured state-trigger expressions: generator, renderer and *independent* evaluator.

The oracle never parses pyscript strings: the generator builds a structure, `render` turns it
into the string handed to pyscript, `truth` evaluates the structure on a model environment.

Snapshot model: an entity is None (missing) or {"s": str, "a": {attr: value}}.
"""

from __future__ import annotations

VALUES = ["on", "off", "1", "7", "home"]
ATTRS = ["a1", "a2"]
ATTR_VALUES = [0, 1, 2]


# ---- generation -----------------------------------------------------------
def gen_atom(rng, ents, allow_old=True):
    ent = rng.choice(ents)
    k = rng.random()
    if k < 0.35:
        return ["eq", ent, rng.choice(VALUES)]
    if k < 0.47:
        return ["ne", ent, rng.choice(VALUES)]
    if k < 0.60:
        return ["in", ent, sorted(rng.sample(VALUES, rng.randint(1, 3)))]
    if k < 0.70:
        return ["attr_eq", ent, rng.choice(ATTRS), rng.choice(ATTR_VALUES)]
    if k < 0.72:
        # a call of a pyscript function inside the expression (constant here: the entity never exists), next to a real atom
        return ["and", ["fnconst"], gen_atom(rng, ents, allow_old)]
    if k < 0.74:
        # an atom that raises (ZeroDivisionError) unless the entity has the given value
        return ["div", ent, rng.choice(VALUES)]
    if k < 0.78:
        # a bare attribute: truthy / falsy without being True / False (0, 1, 2)
        return ["and", ["ne", ent, "zz"], ["attr_val", ent, rng.choice(ATTRS)]]
    if allow_old and k < 0.90:
        return ["old_eq", ent, rng.choice(VALUES)]
    if allow_old:
        # E.old.attr is only meaningful next to an atom that watches E itself
        return ["and", ["ne", ent, "zz"], ["old_attr_eq", ent, rng.choice(ATTRS), rng.choice(ATTR_VALUES)]]
    return ["eq", ent, rng.choice(VALUES)]


def gen_expr(rng, ents, depth=2, allow_old=True):
    if depth <= 0 or rng.random() < 0.4:
        return gen_atom(rng, ents, allow_old)
    k = rng.random()
    if k < 0.4:
        return ["and", gen_expr(rng, ents, depth - 1, allow_old), gen_expr(rng, ents, depth - 1, allow_old)]
    if k < 0.8:
        return ["or", gen_expr(rng, ents, depth - 1, allow_old), gen_expr(rng, ents, depth - 1, allow_old)]
    return ["not", gen_expr(rng, ents, depth - 1, allow_old)]


# ---- rendering ------------------------------------------------------------
def render(e) -> str:
    op = e[0]
    if op == "eq":
        return f"{e[1]} == '{e[2]}'"
    if op == "ne":
        return f"{e[1]} != '{e[2]}'"
    if op == "in":
        return f"{e[1]} in {e[2]!r}"
    if op == "attr_eq":
        return f"{e[1]}.{e[2]} == {e[3]}"
    if op == "fnconst":
        return "(not state.exist('pyscript.never_zz'))"
    if op == "div":
        return f"(10 // ({e[1]} == '{e[2]}'))"
    if op == "attr_val":
        return f"{e[1]}.{e[2]}"
    if op == "old_eq":
        return f"{e[1]}.old == '{e[2]}'"
    if op == "old_attr_eq":
        return f"{e[1]}.old.{e[2]} == {e[3]}"
    if op == "and":
        return f"({render(e[1])} and {render(e[2])})"
    if op == "or":
        return f"({render(e[1])} or {render(e[2])})"
    if op == "not":
        return f"(not {render(e[1])})"
    raise ValueError(op)


# ---- names an expression mentions (what pyscript watches by default) ---------
def names(e, out=None) -> set:
    out = set() if out is None else out
    op = e[0]
    if op == "fnconst":
        return out
    if op in ("eq", "ne", "in", "div"):
        out.add(e[1])
    elif op in ("attr_eq", "attr_val"):
        out.add(f"{e[1]}.{e[2]}")
    elif op == "old_eq":
        out.add(f"{e[1]}.old")
    elif op == "old_attr_eq":
        out.add(f"{e[1]}.old.{e[2]}")
    else:
        for sub in e[1:]:
            names(sub, out)
    return out


# ---- evaluation -------------------------------------------------------------
class ExprRaises(Exception):
    """The expression raises for these values (the trigger must survive that and treat it as not true)."""



def _val(snap):
    return None if snap is None else snap["s"]


def _attr(snap, attr):
    if snap is None:
        return None
    return snap["a"].get(attr)


def truth(e, env, changed=None, old=None):
    """env: entity -> snapshot (as of this event); changed: entity of this event; old: its previous
    snapshot.  X.old for any other entity is None."""
    op = e[0]
    if op == "eq":
        return _val(env.get(e[1])) == e[2]
    if op == "ne":
        return _val(env.get(e[1])) != e[2]
    if op == "in":
        return _val(env.get(e[1])) in e[2]
    if op == "attr_eq":
        return _attr(env.get(e[1]), e[2]) == e[3]
    if op == "fnconst":
        return True
    if op == "div":
        if _val(env.get(e[1])) == e[2]:
            return 10
        raise ExprRaises("ZeroDivisionError")
    if op == "attr_val":
        return _attr(env.get(e[1]), e[2])
    if op == "old_eq":
        o = old if e[1] == changed else None
        return _val(o) == e[2]
    if op == "old_attr_eq":
        o = old if e[1] == changed else None
        return _attr(o, e[2]) == e[3]
    if op == "and":
        return truth(e[1], env, changed, old) and truth(e[2], env, changed, old)
    if op == "or":
        return truth(e[1], env, changed, old) or truth(e[2], env, changed, old)
    if op == "not":
        return not truth(e[1], env, changed, old)
    raise ValueError(op)


# ---- change rules (from the property statement / reference.rst) ------------------
def name_changed(name: str, ent: str, old, new) -> bool:
    """Did the watched name `name` change in the event (ent: old -> new)?"""
    parts = name.split(".")
    if len(parts) < 2 or len(parts) > 3:
        return False
    if f"{parts[0]}.{parts[1]}" != ent:
        return False
    if len(parts) == 2 or parts[2] == "old":
        return _val(old) != _val(new)
    return _attr(old, parts[2]) != _attr(new, parts[2])


def any_change_matches(name: str, ent: str, old, new) -> bool:
    parts = name.split(".")
    if f"{parts[0]}.{parts[1]}" != ent:
        return False
    if len(parts) == 2:
        return _val(old) != _val(new)
    if parts[2] == "*":
        keys = set((old or {"a": {}})["a"]) | set((new or {"a": {}})["a"])
        return any(_attr(old, k) != _attr(new, k) for k in keys)
    return _attr(old, parts[2]) != _attr(new, parts[2])


def entity_of(name: str) -> str:
    p = name.split(".")
    return f"{p[0]}.{p[1]}"
