"""Runtime-monitoring machinery for custom-components/pyscript (see /verif/DESIGN.md)."""

import os
import sys

REPO = os.environ.get("VERIF_REPO", "/repo")
VERIF = os.path.dirname(os.path.dirname(os.path.abspath(__file__)))


def repo_first():
    """Make sure `custom_components` resolves to REPO's working tree."""
    if not sys.path or sys.path[0] != REPO:
        if REPO in sys.path:
            sys.path.remove(REPO)
        sys.path.insert(0, REPO)
