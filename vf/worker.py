"""Worker process: python -m vf.worker <check module>.  Length-prefixed JSON on stdin/stdout."""

from __future__ import annotations

import faulthandler
import gc
import importlib
import os
import sys
import time
import traceback


def main():
    from . import repo_first
    from .pool import _recv, _send

    repo_first()
    proto_out = os.dup(1)
    os.dup2(2, 1)  # stray prints go to stderr; the protocol keeps its own descriptor
    faulthandler.enable()
    mod = importlib.import_module(sys.argv[1])
    if hasattr(mod, "warm"):
        mod.warm()
    gc.collect()
    # everything imported so far is permanent: keep it out of the per-case garbage collections (World.close collects
    # the finished case's objects before the next case starts)
    gc.freeze()
    n = 0
    while True:
        try:
            msg = _recv(0)
        except EOFError:
            break
        if msg is None:
            break
        out = []
        for case in msg:
            t0 = time.time()
            try:
                res = mod.run_case(case)
            except BaseException as exc:  # noqa: BLE001
                res = {
                    "verdict": "inconclusive",
                    "why": f"harness exception {type(exc).__name__}: {exc}"[:400],
                    "tb": traceback.format_exc()[-3000:],
                }
            res.setdefault("wall", round(time.time() - t0, 4))
            out.append(res)
            n += 1
            if n % 50 == 0:
                gc.collect()
        _send(proto_out, out)
    os._exit(0)


if __name__ == "__main__":
    main()
