"""C11 — each file has an isolated global context; modules are shared singletons."""

from __future__ import annotations

import builtins
import json
import importlib
import os
import random
import sys

ID = "C11"
LEVEL = "exploration"
BUDGET = {"quick": 55, "thorough": 900}
QUICK_CASES = 1200
FLOOR = {"quick": 500, "thorough": 500}  # conclusive cases below which a run is inconclusive (the thorough tier is time-budgeted: same floor)
TIMEOUT = 120
REQUIRED_OBS = ["programs", "files", "import_edges", "cross_context_calls", "raising_cross_calls", "callbacks_into_caller_file", "entries_run", "entries_via_trigger", "entries_via_service", "entries_via_task", "global_tables_compared", "module_singleton_checks", "jupyter_contexts", "star_imports", "relative_imports", "sibling_relative_imports", "level2_relative_imports", "scoped_functions", "scoped_calls", "expression_triggers", "foreign_decorated_triggers", "expression_trigger_runs"]
RULE = (
    "generated sets of 3-7 files (top-level scripts, scripts/, a single-file app, an app package with a sibling, modules, a module "
    "package with a sibling, and a Jupyter-style session context) that all define the same global names (NAME, X, L, R, get, bump, apply, "
    "safe, boom, make, lam, class C) plus a name only they define (calls incl. ones whose arguments cannot be bound, caught by the caller); import edges of every form (import m, import m as a, from m import f as "
    "g, from m import *, from . import sib, from .sib import f, from pkg import sib) placed before, between or after the own definitions; "
    "top-level statements and entry functions whose bodies are nested cross-file call chains up to depth 4 (higher-order apply/safe of any "
    "file around get/bump/lam/boom/methods/closures of any file), callbacks into the caller's file, calls that raise through foreign "
    "frames and are caught elsewhere, module attribute reads/writes, reads of names that only another file defines. Entry functions are "
    "run from event triggers, services and task.create tasks. Oracle: CPython importing the very same files as ordinary modules (decorators "
    "shimmed to identity) and calling the same entries in the same order; after the load and after every entry the complete global table "
    "of every context (names and canonical values), the list of executed files (singleton loads) and every entry's result must be equal."
)
ASSUMPTIONS = [
    "__all__ is not used (pyscript's star import copies every public name; the property does not mention __all__)",
    "scripts never import other scripts or apps (not supported by design); only modules are imported",
    "pyscript.set_global_ctx / get_global_ctx are exercised for the Jupyter-style context only (set to itself, get compared with its name)",
]


def warm():
    from ..warm import warm as _w

    _w()


def generate(tier, seed, gated=frozenset()):
    i = 0
    while True:
        yield {"seed": f"C11-{tier}-{seed}-{i}", "legacy": i % 2 == 1}
        i += 1


# ------------------------------------------------------------------ program generator
# file id -> (relative path, python module name as CPython sees it, pyscript context name)
FILES = {
    "fa": ("fa.py", "fa", "file.fa"),
    "fb": ("fb.py", "fb", "file.fb"),
    "sc": ("scripts/sc.py", "sc", "scripts.sc"),
    "ap1": ("apps/ap1.py", "ap1", "apps.ap1"),
    "ap2": ("apps/ap2/__init__.py", "ap2", "apps.ap2"),
    "ap2u": ("apps/ap2/util.py", "ap2.util", "apps.ap2.util"),
    "ap2o": ("apps/ap2/other.py", "ap2.other", "apps.ap2.other"),
    "mo1": ("modules/mo1.py", "mo1", "modules.mo1"),
    "mo2": ("modules/mo2.py", "mo2", "modules.mo2"),
    "pk": ("modules/pk/__init__.py", "pk", "modules.pk"),
    "pks": ("modules/pk/sub.py", "pk.sub", "modules.pk.sub"),
    "pko": ("modules/pk/other.py", "pk.other", "modules.pk.other"),
    "pki": ("modules/pk/inner/__init__.py", "pk.inner", "modules.pk.inner"),
    "pkd": ("modules/pk/inner/deep.py", "pk.inner.deep", "modules.pk.inner.deep"),
    "jup": (None, "jupyter_0", "jupyter_0"),
}
MODULE_IDS = ["mo2", "mo1", "pko", "pkd", "pki", "pks", "pk"]  # import order constraint: a module may import those to its left
LOADERS = ["ap1", "ap2", "fa", "fb", "sc"]  # pyscript's load order (sorted context names)

TEMPLATE = '''
def get():
    return (NAME, X)

def bump(n):
    global X
    X += n
    L.append(n)
    return (NAME, X)

def apply(fn, *args):
    r = fn(*args)
    return (NAME, X, r)

def worker(fn, *args):
    r0 = fn(*args)
    def late():
        return (NAME, X)
    return (NAME, r0, late())

def boom(n):
    global X
    X += n
    raise ValueError(NAME + ":" + str(X))

def safe(fn, *args):
    try:
        return ("ok", NAME, fn(*args))
    except ValueError as exc:
        return ("err", str(exc), NAME, X)

def make():
    k = X
    def inner(d):
        nonlocal k
        k += d
        return (NAME, k, X)
    return inner

class C:
    tag = NAME
    def __init__(self, v):
        self.v = v
    def m(self, d):
        global X
        X += d
        self.v += d
        return (NAME, self.tag, self.v, X)

lam = lambda d: (NAME, X + d)

def deco(fn):
    def wrapper(*args, **kwargs):
        L.append("deco")
        return fn(*args, **kwargs)

    return wrapper
'''


class ProgGen:
    def __init__(self, rng):
        self.r = rng
        self.stats = {"import_edges": 0, "cross_context_calls": 0, "raising_cross_calls": 0, "callbacks_into_caller_file": 0, "star_imports": 0, "relative_imports": 0, "sibling_relative_imports": 0, "level2_relative_imports": 0, "scoped_functions": 0, "scoped_calls": 0, "expression_triggers": 0, "foreign_decorated_triggers": 0}

    def pick_files(self):
        r = self.r
        mods = [m for m in ("mo1", "mo2") if r.random() < 0.8]
        if r.random() < 0.5:
            mods += ["pk", "pks"] + (["pko"] if r.random() < 0.6 else [])
            if "pko" in mods and r.random() < 0.5:
                # a sub-package whose module reaches the package's sibling through a level-2 relative import
                mods += ["pki", "pkd"]
        if not mods:
            mods = ["mo1"]
        loaders = [f for f in LOADERS if r.random() < 0.45]
        if not loaders:
            loaders = [r.choice(LOADERS)]
        if "ap2" in loaders:
            loaders.append("ap2u")
            if r.random() < 0.6:
                loaders.append("ap2o")
        jup = ["jup"] if r.random() < 0.3 else []
        return mods, loaders, jup

    def build(self):
        r = self.r
        mods, loaders, jup = self.pick_files()
        self.present = mods + loaders + jup
        self.entries = {}
        self.scoped = {}
        self.exprtrig = {}
        self.env = {}  # file id -> {"mods": {alias: fid}, "fns": {alias: (fid, fname)}, "star": [fid]}
        src = {}
        for fid in self.present:
            src[fid] = self.file_source(fid, mods)
        return src

    def importable(self, fid, mods):
        if fid in MODULE_IDS:
            allowed = MODULE_IDS[: MODULE_IDS.index(fid)]
            if fid == "pk":
                allowed = ["mo2", "mo1"]  # .sub comes through the relative import
            if fid in ("pks", "pko", "pki", "pkd"):
                allowed = ["mo2", "mo1"]
            return [m for m in allowed if m in mods]
        return [m for m in mods if m not in ("pks", "pko", "pki", "pkd")]

    def file_source(self, fid, mods):
        r = self.r
        env = self.env[fid] = {"mods": {}, "fns": {}, "star": []}
        imps = {"top": [], "mid": [], "bottom": []}

        def place(line):
            imps[r.choice(["top", "top", "mid", "bottom"])].append(line)

        # relative imports inside packages
        if fid == "pk" and "pks" in self.present:
            if r.random() < 0.5:
                place("from . import sub")
                env["mods"]["sub"] = "pks"
            else:
                place("from .sub import get as get_sub, bump as bump_sub")
                env["fns"]["get_sub"] = ("pks", "get")
                env["fns"]["bump_sub"] = ("pks", "bump")
            self.stats["relative_imports"] += 1
            self.stats["import_edges"] += 1
        # a sibling module of a package imported relatively from the package and from another sibling: one instance
        for me, sib, alias in (("pk", "pko", "other"), ("pks", "pko", "other"), ("ap2", "ap2o", "other"), ("ap2u", "ap2o", "other")):
            if fid == me and sib in self.present and r.random() < (0.5 if me in ("pk", "ap2") else 0.8):
                if r.random() < 0.5:
                    place("from . import other as sib_other")
                    env["mods"]["sib_other"] = sib
                else:
                    place("from .other import get as get_other, bump as bump_other")
                    env["fns"]["get_other"] = (sib, "get")
                    env["fns"]["bump_other"] = (sib, "bump")
                self.stats["relative_imports"] += 1
                self.stats["sibling_relative_imports"] += 1
                self.stats["import_edges"] += 1
        if fid == "pk" and "pki" in self.present:
            place("from . import inner as sib_inner")
            env["mods"]["sib_inner"] = "pki"
            self.stats["relative_imports"] += 1
            self.stats["import_edges"] += 1
        if fid == "pki":
            place("from . import deep as sib_deep")
            env["mods"]["sib_deep"] = "pkd"
            self.stats["relative_imports"] += 1
            self.stats["import_edges"] += 1
        if fid == "pkd":
            if r.random() < 0.5:
                place("from .. import other as up_other")
                env["mods"]["up_other"] = "pko"
            else:
                place("from ..other import get as get_up, bump as bump_up")
                env["fns"]["get_up"] = ("pko", "get")
                env["fns"]["bump_up"] = ("pko", "bump")
            self.stats["relative_imports"] += 1
            self.stats["level2_relative_imports"] += 1
            self.stats["import_edges"] += 1
        if fid == "ap2":
            if r.random() < 0.5:
                place("from . import util")
                env["mods"]["util"] = "ap2u"
            else:
                place("from .util import get as get_util, apply as apply_util")
                env["fns"]["get_util"] = ("ap2u", "get")
                env["fns"]["apply_util"] = ("ap2u", "apply")
            self.stats["relative_imports"] += 1
            self.stats["import_edges"] += 1
        for m in self.importable(fid, mods):
            if r.random() > 0.7:
                continue
            self.stats["import_edges"] += 1
            pyname = FILES[m][1]
            k = r.random()
            if k < 0.35:
                place(f"import {pyname}")
                env["mods"][pyname] = m
            elif k < 0.5:
                place(f"import {pyname} as z_{m}")
                env["mods"][f"z_{m}"] = m
            elif k < 0.75:
                names = r.sample(["get", "bump", "apply", "safe", "worker", "boom", "lam", "make", "C", "deco"], r.randint(1, 4))
                place(f"from {pyname} import " + ", ".join(f"{n} as {n}_{m}" for n in names))
                for n in names:
                    env["fns"][f"{n}_{m}"] = (m, n)
            elif k < 0.9 and m in ("mo1", "mo2"):
                # (a package is not star-imported: CPython also copies the package's implicit submodule attributes)
                place(f"from {pyname} import *")
                env["star"].append(m)
                self.stats["star_imports"] += 1
            else:
                if m == "pk" and "pks" in self.present and "sub" in self.env["pk"]["mods"]:
                    place("from pk import sub as pk_sub")
                    env["mods"]["pk_sub"] = "pks"
                else:
                    place(f"import {pyname}")
                    env["mods"][pyname] = m
        base = {"fa": 10, "fb": 20, "sc": 30, "ap1": 40, "ap2": 50, "ap2u": 60, "mo1": 100, "mo2": 200, "pk": 300, "pks": 400, "jup": 500, "ap2o": 70, "pko": 450, "pki": 600, "pkd": 700}[fid]
        lines = [f"vf.rec('load', name=__name__, file={fid!r})"]
        lines += imps["top"]
        lines += [f"NAME = {fid!r}", f"X = {base}", f"LIMIT = {base}", "L = []", "R = []", f"ONLY_{fid} = {base + 1}"]
        lines += imps["mid"]
        lines.append(TEMPLATE)
        lines += imps["bottom"]
        # functions with locals that shadow the global names and a nested function (a foreign callee must not see them)
        self.scoped[fid] = 0
        for j in range(r.choice([0, 0, 1, 2])):
            body = []
            for _ in range(r.randint(1, 3)):
                body += [l.replace("R.append(", "out.append(") for l in self.statement(fid, "    ")]
            lines += ["", f"def scoped_{j}(d):", f"    NAME = 'loc-{fid}'", "    X = -5 - d", "    L = ['loc']", "    k = 'caller-k'", "", "    def helper():", "        return (NAME, X, k)", "", "    out = [helper()]"] + body + ["    out.append((NAME, X, L))", "    return out"]
            self.scoped[fid] += 1
            self.stats["scoped_functions"] += 1
        # top-level statements
        for _ in range(r.randint(0, 5)):
            lines += self.statement(fid, "")
        # entries
        n_entries = r.randint(1, 3) if fid not in ("ap2u", "pks", "ap2o", "pko", "pki", "pkd") else r.randint(0, 1)
        self.entries[fid] = []
        for i in range(n_entries):
            kind = r.choice(["trigger", "service", "task"]) if fid != "jup" else "direct"
            body = []
            for _ in range(r.randint(1, 4)):
                body += self.statement(fid, "    ")
            lines += ["", f"def entry_{i}():", "    global X"] + body + ["    return (NAME, X)"]
            if kind == "trigger":
                lines += ["", f"@event_trigger('go_{fid}_{i}')", f"def trig_{i}(**kw):", f"    vf.rec('entry', who={fid + str(i)!r}, res=entry_{i}())"]
            elif kind == "service":
                lines += ["", f"@service('pyscript.go_{fid}_{i}')", f"def trig_{i}():", f"    vf.rec('entry', who={fid + str(i)!r}, res=entry_{i}())"]
            elif kind == "task":
                lines += ["", f"def body_{i}():", f"    vf.rec('entry', who={fid + str(i)!r}, res=entry_{i}())", "", f"@event_trigger('go_{fid}_{i}')", f"def trig_{i}(**kw):", f"    task.create(body_{i})"]
            self.entries[fid].append(kind)
        if fid in LOADERS and r.random() < 0.6:
            decos = [None, "deco"] + [f"{a}.deco" for a in env["mods"]] + [a for a, (m, n) in env["fns"].items() if n == "deco"]
            d1, d2 = r.choice(decos), r.choice(decos)
            lines += ["", "@state_trigger('int(pyscript.c11v) > LIMIT')"] + ([f"@{d1}"] if d1 else []) + ["def st_trig(**kw):", f"    vf.rec('exprtrig', who={fid!r}, kind='st', seen=[NAME, X, LIMIT])"]
            lines += ["", "@event_trigger('c11ev', 'lim > LIMIT')"] + ([f"@{d2}"] if d2 else []) + ["def ev_trig(**kw):", f"    vf.rec('exprtrig', who={fid!r}, kind='ev', seen=[NAME, X, LIMIT])"]
            self.exprtrig[fid] = True
            self.stats["expression_triggers"] += 2
            self.stats["foreign_decorated_triggers"] += sum(1 for d in (d1, d2) if d and d != "deco")
        return "\n".join(lines) + "\n"

    # --- expressions -------------------------------------------------------
    def fn_refs(self, fid, names):
        """All ways this file can name one of the functions `names` of any file: (ref, owner file or None if own/unknown)."""
        env = self.env[fid]
        out = [(n, fid) for n in names]
        for alias, m in env["mods"].items():
            out += [(f"{alias}.{n}", m) for n in names]
        for alias, (m, n) in env["fns"].items():
            if n in names:
                out.append((alias, m))
        return out

    def call_spec(self, fid, depth, allow_raise):
        """-> (callable ref, [arg strs], raises?)"""
        r = self.r
        if depth == 0:
            names = ["get", "bump", "lam"] + (["boom"] if allow_raise else [])
            ref, owner = r.choice(self.fn_refs(fid, names))
            if owner != fid:
                self.stats["cross_context_calls"] += 1
            base = ref.split(".")[-1].split("_")[0]
            if base == "get":
                return ref, [], False
            if base == "boom":
                if owner != fid:
                    self.stats["raising_cross_calls"] += 1
                return ref, [str(r.randint(1, 9))], True
            return ref, [str(r.randint(1, 9))], False
        ho, owner = r.choice(self.fn_refs(fid, ["apply", "safe", "worker"]))
        if owner != fid:
            self.stats["cross_context_calls"] += 1
        is_safe = ho.split(".")[-1].split("_")[0] == "safe"
        iref, iargs, iraises = self.call_spec(fid, depth - 1, allow_raise or is_safe)
        if owner != fid and "." not in iref and iref in ("get", "bump", "lam", "boom", "apply", "safe"):
            self.stats["callbacks_into_caller_file"] += 1
        return ho, [iref] + iargs, iraises and not is_safe

    def statement(self, fid, ind):
        r = self.r
        env = self.env[fid]
        k = r.random()
        mods = list(env["mods"])
        cands = [(f"scoped_{j}", fid) for j in range(self.scoped.get(fid, 0))]
        for alias, m in env["mods"].items():
            cands += [(f"{alias}.scoped_{j}", m) for j in range(self.scoped.get(m, 0))]
        if cands and r.random() < 0.15:
            ref, owner = r.choice(cands)
            if owner != fid:
                self.stats["cross_context_calls"] += 1
            self.stats["scoped_calls"] += 1
            return [f"{ind}R.append({ref}({r.randint(1, 9)}))"]
        if k < 0.05:
            # a call whose arguments cannot be bound (TypeError before the callee's body starts), caught by the caller, which
            # must still be running against its own globals afterwards
            ref, owner = r.choice(self.fn_refs(fid, ["bump", "boom"]))
            if owner != fid:
                self.stats["cross_context_calls"] += 1
                self.stats["raising_cross_calls"] += 1
            bad = r.choice(["", "1, 2, 3", "1, 2, 3, 4"])
            return [f"{ind}try:", f"{ind}    R.append({ref}({bad}))", f"{ind}except TypeError:", f"{ind}    R.append(('badcall', NAME, X))", f"{ind}R.append((NAME, X, len(L)))"]
        if k < 0.45:
            ref, args, raises = self.call_spec(fid, r.choice([0, 1, 1, 2, 2, 3]), True)
            call = f"{ref}({', '.join(args)})"
            if r.random() < 0.2:
                call = f"[{call} for _ in range(2)]"
            if raises:
                if r.random() < 0.5:
                    return [f"{ind}try:", f"{ind}    R.append({call})", f"{ind}except ValueError as exc:", f"{ind}    R.append(('caught', str(exc), NAME, X))"]
                return [f"{ind}try:", f"{ind}    R.append({call})", f"{ind}except ValueError as exc:", f"{ind}    R.append(('caught', str(exc)))", f"{ind}finally:", f"{ind}    R.append(('fin', NAME, X))"]
            return [f"{ind}R.append({call})"]
        if k < 0.55 and mods:
            m = r.choice(mods)
            self.stats["cross_context_calls"] += 1
            return [r.choice([f"{ind}{m}.X = {r.randint(1, 99)}", f"{ind}{m}.X += {r.randint(1, 9)}", f"{ind}{m}.L.append({r.randint(1, 9)})", f"{ind}R.append(({m}.NAME, {m}.X, len({m}.L)))", f"{ind}{m}.EXTRA_{fid} = {r.randint(1, 9)}"])]
        if k < 0.63:
            return [r.choice([f"{ind}X = {r.randint(1, 99)}", f"{ind}X += {r.randint(1, 9)}", f"{ind}R.append((NAME, X, len(L), __name__))"])]
        if k < 0.73:
            refs = self.fn_refs(fid, ["C"])
            ref, owner = r.choice(refs)
            v = f"o{r.randint(0, 2)}"
            out = [f"{ind}{v} = {ref}({r.randint(1, 9)})", f"{ind}R.append({v}.m({r.randint(1, 9)}))"]
            if owner != fid:
                self.stats["cross_context_calls"] += 1
            if r.random() < 0.5:
                ho, howner = r.choice(self.fn_refs(fid, ["apply", "safe"]))
                out.append(f"{ind}R.append({ho}({v}.m, {r.randint(1, 9)}))")
                if howner != fid:
                    self.stats["cross_context_calls"] += 1
            return out
        if k < 0.83:
            ref, owner = r.choice(self.fn_refs(fid, ["make"]))
            v = f"ck{r.randint(0, 2)}"
            if owner != fid:
                self.stats["cross_context_calls"] += 1
            return [f"{ind}{v} = {ref}()", f"{ind}R.append({v}({r.randint(1, 9)}))", f"{ind}R.append({v}({r.randint(1, 9)}))"]
        if k < 0.93:
            other = r.choice([f for f in self.present if f != fid] or [fid])
            return [f"{ind}try:", f"{ind}    R.append(ONLY_{other})", f"{ind}except NameError:", f"{ind}    R.append('no ONLY_{other}')"]
        if mods:
            m = r.choice(mods)
            return [f"{ind}R.append(sorted([n for n in dir({m}) if not n.startswith('_') and n.isupper()]))"]
        return [f"{ind}R.append((NAME, X))"]


# ------------------------------------------------------------------ the CPython side
class _Shim:
    def __init__(self, recs):
        self.recs = recs

    def rec(self, tag, /, **info):
        self.recs.append((tag, info))


def _ident_deco(*a, **k):
    def deco(f):
        return f

    return deco


def run_cpython(root, src, order, plan, exprtrig=()):
    """Import the files as ordinary modules; returns (dumps, loads, entries, error)."""
    from ..interp import canon, canon_globals

    recs = []
    saved_path = list(sys.path)
    saved_mods = set(sys.modules)
    shim = {"vf": _Shim(recs), "event_trigger": _ident_deco, "state_trigger": _ident_deco, "service": _ident_deco, "task": None, "pyscript": None}
    old = {k: getattr(builtins, k, None) for k in shim}
    for k, v in shim.items():
        setattr(builtins, k, v)
    old_dwb = sys.dont_write_bytecode
    sys.dont_write_bytecode = True
    sys.path[:0] = [root, os.path.join(root, "scripts"), os.path.join(root, "apps"), os.path.join(root, "modules")]
    importlib.invalidate_caches()
    dumps, entries = [], []
    mods = {}
    err = None

    def dump():
        out = {}
        for fid in src:
            pyname = FILES[fid][1]
            if pyname in sys.modules and pyname not in saved_mods:
                out[FILES[fid][2]] = canon_globals(vars(sys.modules[pyname]), ())
        return out

    try:
        for fid in order:
            pyname = FILES[fid][1]
            if fid == "jup":
                import types

                m = types.ModuleType("jupyter_0")
                sys.modules["jupyter_0"] = m
                exec(compile(src[fid], "jupyter_0", "exec"), m.__dict__)  # noqa: S102
            else:
                m = importlib.import_module(pyname)
            mods[fid] = m
        dumps.append(dump())
        for fid, i in plan:
            if fid in ("@state", "@event"):
                nrec = len(recs)
                # the expression was written in the file that defines the trigger: it reads that file's globals
                for f2 in order:
                    m2 = sys.modules.get(FILES[f2][1])
                    fn = getattr(m2, "st_trig" if fid == "@state" else "ev_trig", None) if m2 is not None and f2 in exprtrig else None
                    if fn is not None and i > vars(m2)["LIMIT"]:
                        fn()
                runs = sorted((info["who"], info["kind"], json.dumps(info["seen"])) for tag, info in recs[nrec:] if tag == "exprtrig")
                entries.append((str(fid) + str(i), runs))
                dumps.append(dump())
                continue
            res = getattr(sys.modules[FILES[fid][1]], f"entry_{i}")()
            entries.append((fid + str(i), canon(res)))
            dumps.append(dump())
    except Exception as exc:  # noqa: BLE001
        err = f"{type(exc).__name__}: {exc}"
    finally:
        sys.path[:] = saved_path
        for k in list(sys.modules):
            if k not in saved_mods:
                del sys.modules[k]
        for k, v in old.items():
            if v is None:
                try:
                    delattr(builtins, k)
                except AttributeError:
                    pass
            else:
                setattr(builtins, k, v)
        sys.dont_write_bytecode = old_dwb
        importlib.invalidate_caches()
    loads = [(info["name"], info.get("file")) for tag, info in recs if tag == "load"]
    return dumps, loads, entries, err


def _drop_submodule_attrs(d):
    """CPython binds a submodule as an attribute of its package when it is first imported (also for `from .sub import f`);
    that is import-system bookkeeping, not a global variable of the file: ignore such names on both sides."""
    for fid, (_, pyname, ctx) in FILES.items():
        g = d.get(ctx)
        if g:
            for n in [n for n, v in g.items() if isinstance(v, list) and len(v) == 2 and v[0] == "module" and str(v[1]).endswith("." + n)]:
                del g[n]
    return d


def _first_diff(a, b):
    """Locate the first difference of two dump dicts: (ctx, name, got, expected)."""
    for ctx in sorted(set(a) | set(b)):
        ga, gb = a.get(ctx), b.get(ctx)
        if ga is None or gb is None:
            return ctx, None, "missing" if ga is None else "present", "present" if ga is None else "missing"
        for n in sorted(set(ga) | set(gb)):
            if n not in ga or n not in gb:
                return ctx, n, "<absent>" if n not in ga else ga[n], "<absent>" if n not in gb else gb[n]
            if ga[n] != gb[n]:
                return ctx, n, ga[n], gb[n]
    return None


def run_case(case):
    import json

    from ..interp import canon, canon_globals
    from ..sim import run_world

    rng = random.Random(case["seed"])
    g = ProgGen(rng)
    src = g.build()
    # a module first imported by the session context gets its triggers started only by a later reload (the kernel starts
    # just its own context): entries of modules that no auto-loaded file reaches are not driven
    reach = set()
    todo = [f for f in LOADERS if f in src]
    while todo:
        f = todo.pop()
        if f in reach:
            continue
        reach.add(f)
        e = g.env[f]
        todo += list(e["mods"].values()) + [m for m, _ in e["fns"].values()] + list(e["star"])
    plan = [(fid, i) for fid in src for i in range(len(g.entries[fid])) if fid in reach or fid == "jup"]
    if g.exprtrig:
        vals = rng.sample([5, 15, 25, 35, 45, 55, 65, 150, 350, 1000], rng.randint(2, 5))
        plan += [("@state", v) for v in vals[: len(vals) // 2 + 1]] + [("@event", v) for v in vals[len(vals) // 2 :]]
    rng.shuffle(plan)
    # entries of files that are never imported cannot be reached in either system: drop them
    loaders = [f for f in LOADERS if f in src]
    order = loaders + (["jup"] if "jup" in src else [])
    viol = []
    obs = {k: 0 for k in REQUIRED_OBS}
    obs.update(g.stats)
    obs["programs"] = 1
    obs["files"] = len(src)
    obs["jupyter_contexts"] = int("jup" in src)
    files = {FILES[fid][0]: text for fid, text in src.items() if fid != "jup"}
    state = {"dumps": [], "entries": []}

    async def main(w):
        from custom_components.pyscript.eval import AstEval
        from custom_components.pyscript.function import Function
        from custom_components.pyscript.global_ctx import GlobalContext, GlobalContextMgr

        def dump():
            out = {}
            for fid in src:
                ctx = GlobalContextMgr.get(FILES[fid][2])
                if ctx is not None:
                    out[FILES[fid][2]] = canon_globals(ctx.global_sym_table, ())
            return out

        if "jup" in src:
            gctx = GlobalContext("jupyter_0", global_sym_table={"__name__": "jupyter_0"}, manager=GlobalContextMgr)
            GlobalContextMgr.set("jupyter_0", gctx)
            gctx.set_auto_start(True)
            ast = AstEval("jupyter_0", gctx)
            Function.install_ast_funcs(ast)
            gctx.set_auto_start(False)  # as Kernel.execute does around a cell
            ast.parse(src["jup"] + "\npyscript.set_global_ctx('jupyter_0')\n__ctx_name = pyscript.get_global_ctx()\n", filename="jupyter_0")
            try:
                await ast.eval()
            except Exception as exc:  # noqa: BLE001
                state["jup_exc"] = f"{type(exc).__name__}: {exc}"
            await Function.waiter_sync()
            gctx.set_auto_start(True)
            gctx.start()
            state["jup_ast"] = ast
            if "jup_exc" not in state and gctx.global_sym_table.get("__ctx_name") != "jupyter_0":
                viol.append({"mech": "get_global_ctx_wrong", "msg": str(gctx.global_sym_table.get("__ctx_name"))})
            await w.settle()
        state["dumps"].append(dump())
        loaded = {FILES[f][2] for f in src if GlobalContextMgr.get(FILES[f][2]) is not None}
        state["loaded"] = loaded
        for fid, i in plan:
            if fid in ("@state", "@event"):
                n0 = len(w.rec)
                if fid == "@state":
                    w.set_state("pyscript.c11v", str(i))
                else:
                    w.fire("c11ev", {"lim": i})
                await w.settle()
                runs = sorted((r["who"], r["kind"], json.dumps(r["seen"])) for r in w.rec[n0:] if r["tag"] == "exprtrig")
                obs["expression_trigger_runs"] += len(runs)
                state["entries"].append(runs)
                state["dumps"].append(dump())
                continue
            if GlobalContextMgr.get(FILES[fid][2]) is None:
                state["entries"].append(None)
                state["dumps"].append(dump())
                continue
            kind = g.entries[fid][i]
            n0 = len(w.rec)
            if kind == "direct":
                ast = state["jup_ast"]
                ast.parse(f"vf.rec('entry', who={fid + str(i)!r}, res=entry_{i}())", filename="jupyter_0")
                try:
                    await ast.eval()
                except Exception as exc:  # noqa: BLE001
                    state["jup_exc"] = f"{type(exc).__name__}: {exc}"
            elif kind == "service":
                await w.call("pyscript", f"go_{fid}_{i}", {}, blocking=True)
                obs["entries_via_service"] += 1
            else:
                w.fire(f"go_{fid}_{i}", {})
                obs["entries_via_" + ("task" if kind == "task" else "trigger")] += 1
            await w.settle()
            got = [r for r in w.rec[n0:] if r["tag"] == "entry"]
            state["entries"].append(got[0]["res"] if len(got) == 1 else ("count", len(got)))
            obs["entries_run"] += 1
            state["dumps"].append(dump())

    def pre(w):
        w.hass.states.async_set("pyscript.c11v", "0")

    w, _ = run_world(main, files=files, config={"apps": {"ap1": {}, "ap2": {}}, "allow_all_imports": False}, legacy=case["legacy"], pre_setup=pre, keep=True)
    # CPython on the same tree (a fresh copy: the world's folder is gone)
    import shutil
    import tempfile

    from ..sim import _tmp_base

    root = tempfile.mkdtemp(prefix="vfc11-", dir=_tmp_base())
    try:
        for rel, text in files.items():
            p = os.path.join(root, rel)
            os.makedirs(os.path.dirname(p), exist_ok=True)
            with open(p, "w", encoding="utf-8") as f:
                f.write(text)
        # only entries of files CPython has loaded as well can be called: files nobody imports are skipped on both sides
        reachable_plan = [(fid, i) for fid, i in plan if fid in ("@state", "@event") or FILES[fid][2] in state.get("loaded", ())]
        cdumps, cloads, centries, cerr = run_cpython(root, src, order, reachable_plan, g.exprtrig)
    finally:
        shutil.rmtree(root, ignore_errors=True)
    if cerr:
        return {"verdict": "inconclusive", "why": "generated program fails on CPython: " + cerr[:300]}
    ploads = [(r["name"], r.get("file")) for r in w.rec if r["tag"] == "load"]
    errs = w.logs(level="ERROR")
    if state.get("jup_exc"):
        viol.append({"mech": "exception_in_session_context", "msg": state["jup_exc"][:500]})
    if errs:
        viol.append({"mech": "error_logged", "msg": str([e["msg"][:300] for e in errs[:2]])})
    obs["module_singleton_checks"] += len(cloads)
    if not viol and ploads != cloads:
        pf = [f for _, f in ploads]
        dup = sorted({f for f in pf if pf.count(f) > 1})
        viol.append({"mech": "module_file_loaded_as_two_instances" if dup else "load_sequence_differs", "msg": f"files executed twice {dup}; pyscript executed {ploads}, CPython {cloads}"})
    # dumps: pyscript has one per plan item (skipped items repeat), CPython one per reachable item
    keep = [fid in ("@state", "@event") or FILES[fid][2] in state.get("loaded", ()) for fid, i in plan]
    pd = [state["dumps"][0]] + [d for k, d in zip(keep, state["dumps"][1:]) if k]
    pe = [e for k, e in zip(keep, state["entries"]) if k]
    if not viol:
        for idx, (a, b) in enumerate(zip(pd, cdumps)):
            obs["global_tables_compared"] += len(b)
            a = _drop_submodule_attrs(json.loads(json.dumps(a)))
            b = _drop_submodule_attrs(json.loads(json.dumps(b)))
            if a != b:
                d = _first_diff(a, b)
                ctx, name, got, exp = d
                where = "after load" if idx == 0 else f"after entry {reachable_plan[idx - 1]}"
                if name is None:
                    mech = "context_set_differs"
                elif got == "<absent>" or exp == "<absent>":
                    mech = "global_name_leaked_or_missing"
                elif name == "R":
                    mech = "cross_context_call_result_differs"
                else:
                    mech = "global_value_differs"
                viol.append({"mech": mech, "msg": f"{where}: context {ctx} name {name}: pyscript {str(got)[:300]} CPython {str(exp)[:300]}"})
                break
        if not viol and len(pd) != len(cdumps):
            viol.append({"mech": "entry_count_differs", "msg": f"{len(pd)} vs {len(cdumps)}"})
    if not viol:
        for (who, exp), got in zip(centries, pe):
            if who.startswith("@"):
                if [list(x) for x in got] != [list(x) for x in exp]:
                    viol.append({"mech": "expression_trigger_runs_differ", "msg": f"step {who}: pyscript ran {got}, expected (expression evaluated in the defining file's globals) {exp}"})
                    break
                continue
            if json.loads(json.dumps(got)) != json.loads(json.dumps(sanitize_like(exp))):
                viol.append({"mech": "entry_result_differs", "msg": f"entry {who}: pyscript {got} CPython {exp}"})
                break
    if w.escapes and not viol:
        viol.append({"mech": "escaped_exception", "msg": str(w.escapes[:2])[:600]})
    return {
        "verdict": "violated" if viol else "held",
        "violations": viol[:2],
        "nontrivial": obs["cross_context_calls"] >= 2 and obs["import_edges"] >= 1,
        "obs": dict(obs, legacy_cases=int(case["legacy"]), default_cases=int(not case["legacy"])),
        "cover": {"files": sorted(src), "entry_kinds": sorted({k for v in g.entries.values() for k in v})},
        "sig": "|".join(sorted(src)) + f"|{g.stats['star_imports']}|{g.stats['raising_cross_calls'] > 0}|{g.stats['callbacks_into_caller_file'] > 0}",
    }


def sanitize_like(v):
    """canon() result -> the shape vf.rec's sanitize gives for the same plain value (tuples become lists)."""
    if isinstance(v, tuple) and len(v) == 2 and v[0] in ("tuple", "list") and isinstance(v[1], list):
        return [sanitize_like(x) for x in v[1]]
    return v


def sample(case, res):
    rng = random.Random(case["seed"])
    g = ProgGen(rng)
    src = g.build()
    fid = sorted(src)[0]
    return {"legacy": case["legacy"], "files": sorted(src), "example_file": fid, "example_source": src[fid][-1500:]}
