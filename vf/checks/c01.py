"""C01 — interpreter evaluates expressions and assignments exactly like Python (CPython differential)."""

from __future__ import annotations

import hashlib
import random

ID = "C01"
LEVEL = "exploration"
BUDGET = {"quick": 50, "thorough": 900}
QUICK_CASES = 1500  # generator items in the quick tier (fixed amount of work; BUDGET is then only a safety cap)
FLOOR = {"quick": 30000, "thorough": 30000}  # conclusive cases below which a run is inconclusive (the thorough tier is time-budgeted: same floor)
TIMEOUT = 120
REQUIRED_OBS = ["programs_compared", "tracer_events", "exceptions_agreed", "table_programs"]
RULE = (
    "generated straight-line programs: (a) bounded-exhaustive tables: every binary/aug-assign/compare operator x ordered pair of the ten "
    "operand kinds x 2 values, unary ops, subscript/slice/unpack/call-unpacking x kind (well- and ill-typed), (b) random nestings to depth "
    "4-6 of every supported expression/assignment node with tracer calls T(tag, v) at operand positions (incl. augmented assignment to elements of tuples, "
    "strings, bytes, nested lists, dicts and an item-logging list subclass, and methods that mutate freshly built constant displays inside comprehensions); same source under CPython "
    "exec() and pyscript AstEval.parse()+eval() on a fresh global context; compared: exception type, ordered tracer log, canonicalised "
    "final globals. Non-trivial: >= 1 tracer event or an exception, and >= 2 node types; distinct by source hash."
)
ASSUMPTIONS = [
    "`is`/`is not` only against None; sets are only observed through sorted()/canonical form",
    "exponent / shift / repeat counts are small constants (both sides would hang alike otherwise)",
    "no eval/exec/globals/locals/print, no dotted state names, nesting <= 6",
    "programs CPython's compiler rejects are discarded (quantifier)",
    "error messages are not compared, only exception types",
]
BATCH_N = 250
EXHAUSTIVE_SUBSPACES = {
    "quick": ["operator x operand-kind tables (vf.gen.expr.table_programs), complete"],
    "thorough": ["operator x operand-kind tables (vf.gen.expr.table_programs), complete"],
}


def warm():
    from ..warm import warm as _w

    _w()


def generate(tier, seed, gated=frozenset()):
    from ..gen.expr import table_programs

    gated = sorted(gated)
    n = len(table_programs())
    for start in range(0, n, 400):
        yield {"stream": "table", "start": start, "count": min(400, n - start)}
    i = 0
    while True:
        yield {"stream": "random", "seed": f"C01-{tier}-{seed}-{i}", "count": BATCH_N, "depth": 4 if tier == "quick" else random.Random(i).choice([4, 5, 6]), "gated": gated}
        i += 1


def programs_of(case):
    from ..gen.expr import Gen, table_programs

    if case["stream"] == "single":
        return [(p, {"features": case.get("features", []), "nodes": 2}) for p in case["programs"]]
    if case["stream"] == "table":
        return [(p, {"features": [], "nodes": 2}) for p in table_programs()[case["start"] : case["start"] + case["count"]]]
    rng = random.Random(case["seed"])
    out = []
    for _ in range(case["count"]):
        g = Gen(rng, gated=case.get("gated", ()), depth=rng.randint(1, case.get("depth", 4)), tprob=rng.choice([0.15, 0.35, 0.6]), illtyped=rng.choice([0.0, 0.05, 0.15]))
        src = g.program(rng.randint(1, 8))
        out.append((src, {"features": sorted(g.features), "nodes": len(g.nodes), "node_set": sorted(g.nodes)}))
    return out


def run_case(case):
    from .. import interp

    progs = programs_of(case)
    viol = []
    obs = {"programs_compared": 0, "tracer_events": 0, "exceptions_agreed": 0, "discarded_by_cpython_compiler": 0, "table_programs": 0}
    unit_keys, nontrivial = [], []
    cover = {"node_types": {}, "exceptions": {}, "features": {}}

    async def main(w):
        for src, meta in progs:
            py = interp.run_cpython(src)
            if "compile_error" in py:
                obs["discarded_by_cpython_compiler"] += 1
                continue
            ps = await interp.run_pyscript(src)
            obs["programs_compared"] += 1
            if case["stream"] == "table":
                obs["table_programs"] += 1
            obs["tracer_events"] += len(py["log"])
            key = hashlib.sha1(src.encode()).hexdigest()[:12]
            unit_keys.append(key)
            if (py["log"] or py["exc"]) and meta["nodes"] >= 2:
                nontrivial.append(key)
            for nt in meta.get("node_set", []):
                cover["node_types"][nt] = cover["node_types"].get(nt, 0) + 1
            for ft in meta["features"]:
                cover["features"][ft] = cover["features"].get(ft, 0) + 1
            if py["exc"]:
                cover["exceptions"][py["exc"]] = cover["exceptions"].get(py["exc"], 0) + 1
            diffs = interp.compare(py, ps)
            if py["exc"] and not diffs:
                obs["exceptions_agreed"] += 1
            if diffs:
                kind = diffs[0][0]
                mech = case.get("_witness_of") or f"diff_{kind}"
                viol.append(
                    {
                        "mech": mech,
                        "msg": f"{diffs[0][1]}\n--- program ---\n{src}",
                        "replay_case": {"stream": "single", "programs": [src], "features": meta["features"]},
                    }
                )

    interp.run_batch_in_world(main)
    return {
        "verdict": "violated" if viol else "held",
        "violations": viol[:40],
        "units": max(1, obs["programs_compared"]),
        "unit_keys": unit_keys,
        "nontrivial_keys": nontrivial,
        "nontrivial": bool(nontrivial),
        "obs": obs,
        "cover": cover,
        "features": case.get("features", []),
    }


def sample(case, res):
    ps = programs_of(case)
    return {"stream": case["stream"], "programs": [p for p, _ in ps[:3]]}
