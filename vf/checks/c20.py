"""C20 — requirements resolution is order-independent and never overrides the host."""

from __future__ import annotations

import itertools
import random

ID = "C20"
LEVEL = "exploration"
BUDGET = {"quick": 45, "thorough": 600}
QUICK_CASES = 2200  # generator items in the quick tier (fixed amount of work; BUDGET is then only a safety cap)
FLOOR = {"quick": 700, "thorough": 700}  # conclusive cases below which a run is inconclusive (the thorough tier is time-budgeted: same floor)
TIMEOUT = 120
REQUIRED_OBS = ["file_sets", "selection_checks", "permutations_checked", "install_runs", "install_decisions_checked", "installs_requested", "foreign_packages_seen", "second_runs_checked", "disallowed_runs", "reload_path_runs", "failed_install_runs"]
RULE = (
    "real temp trees with requirements.txt at the four documented locations (pyscript/, apps/<x>/, modules/<x>/, scripts/<x>/); multisets of "
    "lines for <= 4 packages: pins in several spellings of a version (1.0 / 1.0.0 / 01.0), versions crossing a power of ten, unpinned, "
    "comments, blank and inline-comment lines, >= / <= / comma specifiers, malformed versions, stray spaces; all permutations of lines and "
    "of files-to-locations for small sets (random otherwise) must give the same selection (metamorphic) and the selection must equal the "
    "reference (highest valid '==' pin by packaging.Version, else unpinned); x installed version {none, equal, different} x recorded version "
    "{none, equal to installed, different} x allow_all_imports; each case runs install_requirements twice against a stub installer that "
    "updates the installed-version table: install/skip decision table, foreign packages untouched, config-entry record equal to what was "
    "installed, no second install. Non-trivial: >= 2 lines for one package or a non-empty install decision."
)
ASSUMPTIONS = [
    "importlib.metadata.version (as imported by requirements.py) and Home Assistant's async_process_requirements are the only stubs",
    "versions compare by packaging.Version equality (which spelling of an equal version survives is not asserted)",
    "package names are lower-case without extras; files only at the documented locations",
]
PKGS = ["pkgalpha", "pkgbeta", "pkggamma", "pkgdelta"]
LOCS = ["requirements.txt", "apps/a1/requirements.txt", "modules/m1/requirements.txt", "scripts/s1/requirements.txt"]
VERSIONS = ["1.0", "1.0.0", "01.0", "1.2", "1.10", "1.9.0", "2.0", "10.0", "9.1", "0.9", "2.0.0rc1", "1.2.3"]


def warm():
    from ..warm import warm as _w

    _w()


def gen_lines(rng):
    """Return list of (line text, meaning) where meaning is ('pin', pkg, ver) / ('unpinned', pkg) / None (ignored)."""
    lines = []
    for pkg in rng.sample(PKGS, rng.randint(1, 4)):
        for _ in range(rng.choice([1, 1, 2, 3, 4])):
            k = rng.random()
            if k < 0.5:
                v = rng.choice(VERSIONS)
                text = f"{pkg}=={v}"
                kk = rng.random()
                if kk < 0.15:
                    text = f"  {text}  "
                elif kk < 0.3:
                    text = f"{text}   # pinned here"
                elif kk < 0.4:
                    text = f"{pkg} == {v}"
                lines.append((text, ("pin", pkg, v)))
            elif k < 0.68:
                lines.append((rng.choice([pkg, f"{pkg}  # any", f" {pkg} "]), ("unpinned", pkg)))
            elif k < 0.8:
                lines.append((rng.choice([f"{pkg}>=1.0", f"{pkg}<=3", f"{pkg}==1.0,<2", f"{pkg}>1,<5", f"{pkg}==1.0==2.0"]), None))
            elif k < 0.9:
                lines.append((f"{pkg}=={rng.choice(['abc', 'one.two', 'v', '1..2'])}", None))
            else:
                lines.append((rng.choice(["", "# just a comment", "   ", f"# {pkg}==9.9"]), None))
    rng.shuffle(lines)
    return lines


def reference(lines):
    from packaging.version import Version

    sel = {}
    for text, meaning in lines:
        if meaning is None:
            continue
        if meaning[0] == "pin":
            _, pkg, v = meaning
            cur = sel.get(pkg)
            if cur is None or cur == "unpinned" or Version(v) > Version(cur):
                sel[pkg] = v
        else:
            sel.setdefault(meaning[1], "unpinned")
    return sel


def generate(tier, seed, gated=frozenset()):
    rng = random.Random(f"C20-{tier}-{seed}")
    i = 0
    while True:
        lines = gen_lines(rng)
        nfiles = rng.randint(1, 4)
        assign = [rng.randrange(nfiles) for _ in lines]
        locs = rng.sample(LOCS, nfiles)
        pk = sorted({m[1] for _, m in lines if m})
        installed = {}
        recorded = {}
        for p in pk:
            inst = rng.choice([None, None, "sel", "other"])
            installed[p] = inst
            recorded[p] = rng.choice([None, "inst", "other"]) if inst else rng.choice([None, None, "other"])
        yield {"lines": [[t, m] for t, m in lines], "assign": assign, "locs": locs, "installed": installed, "recorded": recorded, "allow_all": rng.random() < 0.85, "n": i, "seed": f"C20c-{tier}-{seed}-{i}"}
        i += 1


def run_case(case):
    from unittest.mock import patch

    from packaging.version import Version

    from ..sim import run_world

    rng = random.Random(case["seed"])
    lines = [(t, tuple(m) if m else None) for t, m in case["lines"]]
    ref = reference(lines)
    viol = []
    obs = {k: 0 for k in REQUIRED_OBS}
    obs["file_sets"] = 1
    multi = any(sum(1 for _, m in lines if m and m[1] == p) >= 2 for p in ref)

    def veq(a, b):
        if a == b:
            return True
        try:
            return a not in (None, "unpinned") and b not in (None, "unpinned") and Version(a) == Version(b)
        except Exception:  # noqa: BLE001
            return False

    def concrete(kind, pkg):
        sel = ref.get(pkg)
        base = sel if sel not in (None, "unpinned") else "3.3"
        if kind is None:
            return None
        if kind in ("sel", "inst"):
            return base
        return "0.0.1"

    installed0 = {p: concrete(k, p) for p, k in case["installed"].items()}
    recorded0 = {}
    for p, k in case["recorded"].items():
        if k is None:
            continue
        recorded0[p] = installed0[p] if (k == "inst" and installed0[p]) else "0.0.7"

    def layout(perm_lines, perm_locs):
        files = {}
        for (text, _), a in zip(perm_lines, case["assign"]):
            files.setdefault(perm_locs[a], []).append(text)
        return files

    async def main(w):
        import os
        import shutil

        from custom_components.pyscript import requirements as R
        from custom_components.pyscript.const import CONF_INSTALLED_PACKAGES, REQUIREMENTS_FILE, REQUIREMENTS_PATHS, UNPINNED_VERSION

        folder = w.pydir
        installed = dict(installed0)
        calls = []

        def fake_installed_version(pkg):
            from importlib.metadata import PackageNotFoundError

            v = installed.get(pkg)
            if v is None:
                raise PackageNotFoundError(pkg)
            return v

        fail_mode = {"on": False}

        async def fake_process(hass, domain, reqs):
            calls.append(list(reqs))
            if fail_mode["on"] and any(r.startswith("failpkg") for r in reqs):
                from homeassistant.requirements import RequirementsNotFound

                raise RequirementsNotFound(domain, [r for r in reqs if r.startswith("failpkg")])
            for r in reqs:
                if "==" in r:
                    p, v = r.split("==")
                    installed[p.strip()] = v.strip()
                else:
                    installed[r.strip()] = "7.7"

        def write(files):
            for loc in LOCS:
                pth = os.path.join(folder, loc)
                if os.path.exists(pth):
                    os.remove(pth)
            for loc, ls in files.items():
                pth = os.path.join(folder, loc)
                os.makedirs(os.path.dirname(pth), exist_ok=True)
                with open(pth, "w", encoding="utf-8") as f:
                    f.write("\n".join(ls) + "\n")

        def selection():
            table = R.process_all_requirements(folder, REQUIREMENTS_PATHS, REQUIREMENTS_FILE)
            return {p: ("unpinned" if info["version"] == UNPINNED_VERSION else info["version"]) for p, info in table.items()}

        with patch.object(R, "installed_version", fake_installed_version), patch.object(R, "async_process_requirements", fake_process):
            # ---- selection + permutation invariance
            write(layout(lines, case["locs"]))
            base = selection()
            obs["selection_checks"] += 1
            for p in set(base) | set(ref):
                if not veq(base.get(p), ref.get(p)):
                    viol.append({"mech": "wrong_version_selected", "msg": f"{p}: selected {base.get(p)!r}, reference {ref.get(p)!r}; files {layout(lines, case['locs'])}"})
                    break
            idx = list(range(len(lines)))
            perms = []
            if len(lines) <= 5:
                perms = list(itertools.permutations(idx))[:120]
            else:
                for _ in range(12):
                    q = idx[:]
                    rng.shuffle(q)
                    perms.append(q)
            loc_perms = list(itertools.permutations(case["locs"]))[:6]
            for q in perms[:40]:
                for lp in (loc_perms if len(perms) <= 24 else [rng.choice(loc_perms)]):
                    pl = [lines[j] for j in q]
                    # keep the same line->file-slot assignment pattern but permute which lines sit where and which file is where
                    write(layout(pl, list(lp)))
                    got = selection()
                    obs["permutations_checked"] += 1
                    if set(got) != set(base) or any(not veq(got[p], base[p]) for p in got):
                        viol.append({"mech": "selection_depends_on_order", "msg": f"selection {base} became {got} after permuting lines/files: {layout(pl, list(lp))}"})
                        break
                if viol:
                    break
            # ---- install decisions (two runs)
            write(layout(lines, case["locs"]))
            entry = w.entry
            data = dict(entry.data)
            data["allow_all_imports"] = case["allow_all"]
            data[CONF_INSTALLED_PACKAGES] = dict(recorded0)
            w.hass.config_entries.async_update_entry(entry, data=data)
            await w.settle()
            calls.clear()
            updates = []
            real_update = w.hass.config_entries.async_update_entry

            def spy_update(*a, **k):
                d = k.get("data")
                updates.append(None if d is None else dict(d.get(CONF_INSTALLED_PACKAGES, {})))
                return real_update(*a, **k)

            with patch.object(w.hass.config_entries, "async_update_entry", spy_update):
                await R.install_requirements(w.hass, entry, folder)
            obs["install_runs"] += 1
            run1 = [r for c in calls for r in c]
            rec1 = dict(entry.data.get(CONF_INSTALLED_PACKAGES, {}))
            if not case["allow_all"]:
                obs["disallowed_runs"] += 1
                if run1 or rec1 != recorded0:
                    viol.append({"mech": "installed_without_allow_all_imports", "msg": f"allow_all_imports=False but installer called with {run1}, record {recorded0} -> {rec1}"})
            else:
                want_install = {}
                want_record = dict(recorded0)
                for p, sel in ref.items():
                    I, Rv = installed0.get(p), recorded0.get(p)
                    obs["install_decisions_checked"] += 1
                    if I is None:
                        want_install[p] = sel
                    elif sel == "unpinned":
                        if Rv is not None and Rv != I:
                            want_record.pop(p, None)
                    else:
                        if Rv is not None and not veq(Rv, I):
                            want_record.pop(p, None)  # externally managed now
                        elif Rv is not None and not veq(sel, I):
                            want_install[p] = sel
                    if I is not None and Rv is None:
                        obs["foreign_packages_seen"] += 1
                got_install = {}
                for r in run1:
                    if "==" in r:
                        p, v = r.split("==")
                        got_install[p] = v
                    else:
                        got_install[r] = "unpinned"
                obs["installs_requested"] += len(got_install)
                if set(got_install) != set(want_install) or any(not veq(got_install[p], want_install[p]) for p in got_install):
                    foreign = [p for p in got_install if installed0.get(p) is not None and recorded0.get(p) is None]
                    mech = "foreign_package_reinstalled" if foreign else "wrong_install_decision"
                    viol.append({"mech": mech, "msg": f"installer asked for {got_install}, expected {want_install}; selection {ref}, installed {installed0}, recorded {recorded0}"})
                else:
                    for p, v in want_install.items():
                        want_record[p] = installed[p] if v == "unpinned" else v
                    if set(rec1) != set(want_record) or any(not veq(rec1[p], want_record[p]) for p in rec1):
                        viol.append({"mech": "record_differs_from_installed", "msg": f"record {rec1}, expected {want_record}; installed request {got_install}; before {recorded0}"})
                    elif (set(want_record) != set(recorded0) or any(not veq(want_record[p], recorded0[p]) for p in want_record)) and not any(
                        u is not None and set(u) == set(want_record) and all(veq(u[p], want_record[p]) for p in u) for u in updates
                    ):
                        # the record is what Home Assistant is handed through async_update_entry (that is what gets persisted)
                        viol.append({"mech": "record_change_not_handed_to_home_assistant", "msg": f"record should change {recorded0} -> {want_record} but async_update_entry was called with {updates}"})
                # what pyscript recorded as its own must be what is installed now
                for p, v in rec1.items():
                    if p in got_install and not veq(installed.get(p), v):
                        viol.append({"mech": "record_differs_from_installed", "msg": f"{p}: record says {v}, installed {installed.get(p)}"})
                # second identical run: nothing to do
                calls.clear()
                await R.install_requirements(w.hass, entry, folder)
                obs["second_runs_checked"] += 1
                run2 = [r for c in calls for r in c]
                rec2 = dict(entry.data.get(CONF_INSTALLED_PACKAGES, {}))
                if run2:
                    viol.append({"mech": "second_run_installs_again", "msg": f"second identical run asked for {run2}; first {run1}; record {rec1}"})
                elif rec2 != rec1:
                    viol.append({"mech": "record_changes_on_idle_run", "msg": f"record {rec1} -> {rec2} on a run that installed nothing"})
                # ---- the same again through the real reload path (yaml re-read, config-entry update, reload handler)
                if not viol and rec2:
                    w.config["allow_all_imports"] = True
                    calls.clear()
                    await w.reload()
                    obs["reload_path_runs"] += 1
                    run3 = [r for c in calls for r in c]
                    rec3 = dict(w.entry.data.get(CONF_INSTALLED_PACKAGES, {}))
                    if rec3 != rec2:
                        viol.append({"mech": "record_lost_on_reload", "msg": f"pyscript.reload: record of installed packages {rec2} -> {rec3}"})
                    elif run3:
                        viol.append({"mech": "second_run_installs_again", "msg": f"pyscript.reload with nothing changed asked for {run3}; record {rec2}"})
            # ---- an installation that fails must not be recorded as done
            if case["allow_all"] and not viol and rng.random() < 0.5:
                fail_mode["on"] = True
                write({LOCS[0]: ["failpkg==1.0"]})
                calls.clear()
                try:
                    await R.install_requirements(w.hass, w.entry, folder)
                except Exception as exc:  # noqa: BLE001
                    if type(exc).__name__ != "RequirementsNotFound":
                        raise
                obs["failed_install_runs"] += 1
                rec4 = dict(w.entry.data.get(CONF_INSTALLED_PACKAGES, {}))
                if "failpkg" in rec4:
                    viol.append({"mech": "failed_install_recorded", "msg": f"failpkg==1.0 could not be installed but the record says {rec4}"})
        shutil.rmtree(os.path.join(folder, "apps"), ignore_errors=True)

    w, _ = run_world(main, files={}, config={"allow_all_imports": True}, keep=True)
    errs = [r for r in w.logs(level="ERROR") if "Ignoring invalid requirement" not in r["msg"] and "allow_all_imports" not in r["msg"] and "wasn't able to be installed" not in r["msg"] and "failpkg" not in r["msg"]]
    if errs:
        viol.append({"mech": "unexpected_error_log", "msg": str(errs[:2])[:900]})
    seen, uniq = set(), []
    for v in viol:
        if v["mech"] not in seen:
            seen.add(v["mech"])
            uniq.append(v)
    feats = []
    if any(m is None and "==" in t and not any(c in t for c in ",<>") and t.count("==") == 1 for t, m in lines):
        feats.append("malformed_version_pin")
    if any(" == " in t for t, _ in lines):
        feats.append("spaces_around_operator")
    return {
        "verdict": "violated" if uniq else "held",
        "violations": uniq,
        "features": feats,
        "nontrivial": multi or obs["installs_requested"] > 0,
        "obs": obs,
        "cover": {"line_kinds": [(m[0] if m else "ignored") for _, m in lines], "allow_all": [str(case["allow_all"])]},
        "sig": "|".join(sorted(t for t, _ in lines))[:150],
    }


def sample(case, res):
    return {"files": {loc: [t for (t, _), a in zip(case["lines"], case["assign"]) if case["locs"][a] == loc] for loc in case["locs"]}, "installed": case["installed"], "recorded": case["recorded"], "allow_all": case["allow_all"]}
