"""C09 — triggers live exactly as long as their function and leave nothing behind."""

from __future__ import annotations

import random

ID = "C09"
LEVEL = "exploration"
BUDGET = {"quick": 55, "thorough": 900}
QUICK_CASES = 700  # generator items in the quick tier (fixed amount of work; BUDGET is then only a safety cap)
FLOOR = {"quick": 200, "thorough": 200}  # conclusive cases below which a run is inconclusive (the thorough tier is time-budgeted: same floor)
TIMEOUT = 120
HASHSEEDS = {"quick": [0, 1, 2, 3], "thorough": list(range(16))}
REQUIRED_OBS = ["deactivations", "occurrence_phases", "runs_observed", "residue_snapshots", "startup_runs", "shutdown_runs", "closure_instances", "redefined_at_load", "deleted_while_starting", "start_suspension_injected", "session_contexts", "closures_defined_in_dead_context"]
RULE = (
    "random lifetime histories over two script files: module-level functions and factory-made closures (kept in a list / dict: append, pop, "
    "clear, overwrite, del) carrying any mix of @state_trigger (single name, or value + .old + attribute of one entity plus a second entity), "
    "@event_trigger, @time_trigger(period + startup/shutdown) and @service; operations: rewrite file + reload, delete file + reload, plain "
    "reload, container operations through a script service, external removal/re-creation of a watched entity, unload; after every operation "
    "an occurrence phase (state toggle, event, 5.5 s of virtual time, service calls). Monitors: generation monitor (no run of a dead "
    "generation, every live one runs), per-step residue tables (state subscriptions per entity, bus listeners, services, trigger tasks) "
    "against the model, full residue snapshot after unload against a calibrated empty-folder baseline, startup/shutdown exactly once, "
    "unraisable/loop exceptions; PYTHONHASHSEED swept over the workers. Non-trivial: >= 1 deactivation followed by an occurrence phase."
)
ASSUMPTIONS = [
    "deactivation is judged at the next quiescent point (settle, gc.collect(), settle) after the operation completed",
    "baseline = identical run with an empty pyscript folder (HA itself adds listeners during set-up)",
    "period(now, 5s) over a 5.5 s phase gives 1 or 2 runs of a live instance, 0 of a dead one",
]
STATE_MULTI = "pyscript.e0 == 'x' and pyscript.e1 != 'q' and pyscript.e1.a1 != 5 and pyscript.e1.old != 'zz'"
KINDS = ["state", "state_multi", "event", "time", "service"]


def warm():
    from ..warm import warm as _w

    _w()


def generate(tier, seed, gated=frozenset()):
    i = 0
    while True:
        for legacy in (False, True):
            yield {"seed": f"C09-{tier}-{seed}-{i}", "legacy": legacy}
        i += 1


# ------------------------------------------------------------------ history generation + model
class Model:
    def __init__(self, rng):
        self.rng = rng
        self.gen = 0
        self.files = {"a.py": {}, "b.py": {}}  # file -> name -> instance
        self.closures = {"list": [], "dict": {}}
        self.dead = {}  # gen -> instance
        self.present = {"a.py": True, "b.py": True}
        self.jup = None

    def new_inst(self, name, where):
        r = self.rng
        self.gen += 1
        trigs = set(r.sample(["state", "event", "time", "service"], r.randint(1, 3)))
        if "state" in trigs and r.random() < 0.5:
            trigs.discard("state")
            trigs.add("state_multi")
        extras = []
        if "time" in trigs:
            extras = r.choice([[], ["startup"], ["shutdown"], ["startup", "shutdown"]])
        inst = {"gen": self.gen, "name": name, "trigs": sorted(trigs), "extras": extras, "where": where}
        if "time" in trigs and extras and where in ("a.py", "b.py") and r.random() < 0.3:
            # @time_trigger("startup") / ("shutdown") / both, without any periodic specification
            inst["noperiod"] = True
        if where in ("a.py", "b.py") and r.random() < 0.25:
            # the file defines the function twice: the first definition is dead as soon as the second one replaces it
            self.gen += 1
            inst["shadow"] = {"gen": self.gen, "name": name, "trigs": sorted(r.sample(["state", "event", "time", "service"], r.randint(1, 3))), "extras": [], "where": where}
        return inst

    def add(self, fdict, name, f):
        """Create the instance `name` of file f; sometimes with a companion that deletes it at start-up."""
        inst = fdict[name] = self.new_inst(name, f)
        if self.rng.random() < 0.15:
            inst["victim"] = True
            inst["extras"] = []
            inst.pop("noperiod", None)
            inst.pop("shadow", None)
            self.gen += 1
            fdict[name + "_k"] = {"gen": self.gen, "name": name + "_k", "trigs": ["time"], "extras": ["startup"], "where": f, "kills": name}
        return inst

    def live(self):
        out = []
        for f, insts in self.files.items():
            if self.present[f]:
                out += [i for i in insts.values() if not i.get("victim")]
        out += self.closures["list"] + list(self.closures["dict"].values())
        if getattr(self, "jup", None) is not None:
            out.append(self.jup)
        return out

    def render_file(self, fname):
        lines = []
        for inst in self.files[fname].values():
            if inst.get("shadow"):
                lines += render_inst(inst["shadow"])
            lines += render_inst(inst)
        if fname == "a.py":
            lines += FACTORY.split("\n")
        return "\n".join(lines) + "\n"


def render_inst(inst, indent="", name=None):
    name = name or inst["name"]
    out = []
    t = inst["trigs"]
    if "state" in t:
        out.append(f"{indent}@state_trigger(\"pyscript.e0 == 'x'\")")
    if "state_multi" in t:
        out.append(f"{indent}@state_trigger({STATE_MULTI!r})")
    if "event" in t:
        out.append(f"{indent}@event_trigger('ev9')")
    if "time" in t:
        args = ", ".join(repr(x) for x in ([] if inst.get("noperiod") else ["period(now, 5s)"]) + inst["extras"])
        out.append(f"{indent}@time_trigger({args})")
    if "service" in t:
        out.append(f"{indent}@service('pyscript.svc_{inst['name']}')")
    # decorators are started top to bottom: any order must behave alike
    random.Random(inst["gen"]).shuffle(out)
    out.append(f"{indent}def {name}(**kw):")
    out.append(f"{indent}    vf.rec('run', fn={inst['name']!r}, gen={inst['gen']}, tt=kw.get('trigger_type'), ttime=str(kw.get('trigger_time')))")
    if inst.get("kills"):
        # deletes its victim as soon as this file's triggers are started (i.e. while the victim may still be starting)
        out += [f"{indent}    global {inst['kills']}", f"{indent}    try:", f"{indent}        del {inst['kills']}", f"{indent}    except NameError:", f"{indent}        pass"]
    out.append("")
    return out


FACTORY = '''
held_list = []
held_dict = {}

def make(kinds, extras, gen, name):
    @service("pyscript.never_%d" % gen)
    def dummy():
        pass
    del dummy
    if kinds == ["event"]:
        @event_trigger('ev9')
        def inner(**kw):
            vf.rec('run', fn=name, gen=gen, tt=kw.get('trigger_type'), ttime=str(kw.get('trigger_time')))
    elif kinds == ["state"]:
        @state_trigger("pyscript.e0 == 'x'")
        def inner(**kw):
            vf.rec('run', fn=name, gen=gen, tt=kw.get('trigger_type'), ttime=str(kw.get('trigger_time')))
    elif kinds == ["state_multi"]:
        @state_trigger("pyscript.e0 == 'x' and pyscript.e1 != 'q' and pyscript.e1.a1 != 5 and pyscript.e1.old != 'zz'")
        def inner(**kw):
            vf.rec('run', fn=name, gen=gen, tt=kw.get('trigger_type'), ttime=str(kw.get('trigger_time')))
    elif kinds == ["time"]:
        @time_trigger("period(now, 5s)", *extras)
        def inner(**kw):
            vf.rec('run', fn=name, gen=gen, tt=kw.get('trigger_type'), ttime=str(kw.get('trigger_time')))
    elif kinds == ["service"]:
        @service("pyscript.svc_" + name)
        def inner(**kw):
            vf.rec('run', fn=name, gen=gen, tt=kw.get('trigger_type'), ttime=str(kw.get('trigger_time')))
    else:
        @state_trigger("pyscript.e0 == 'x'")
        @event_trigger('ev9')
        def inner(**kw):
            vf.rec('run', fn=name, gen=gen, tt=kw.get('trigger_type'), ttime=str(kw.get('trigger_time')))
    return inner

@service
def ctl_late(kinds=None, extras=None, gen=None, name=None):
    # still running when its file is rewritten and reloaded: what it defines afterwards belongs to the dead context
    task.wait_until(event_trigger='c9_release')
    held_list.append(make(kinds, extras, gen, name))
    vf.rec('late_defined', gen=gen)

@service
def ctl(op=None, key=None, kinds=None, extras=None, gen=None, name=None):
    if op == "append":
        held_list.append(make(kinds, extras, gen, name))
    elif op == "pop":
        held_list.pop()
    elif op == "clear":
        held_list.clear()
    elif op == "set":
        held_dict[key] = make(kinds, extras, gen, name)
    elif op == "del":
        del held_dict[key]
    elif op == "none":
        held_dict[key] = None
'''


def gen_history(rng):
    m = Model(rng)
    for f in ("a.py", "b.py"):
        for i in range(rng.randint(1, 3)):
            name = f"{f[0]}f{i}"
            m.add(m.files[f], name, f)
    steps = []
    n = rng.randint(4, 10)
    for _ in range(n):
        k = rng.random()
        if k < 0.22:
            f = rng.choice(["a.py", "b.py"])
            steps.append({"op": "rewrite", "file": f, "drop": rng.random() < 0.3, "add": rng.random() < 0.3, "late": f == "a.py" and rng.random() < 0.35, "late_kind": rng.choice(["state", "state_multi", "event", "time", "service"])})
        elif k < 0.30:
            steps.append({"op": "delete_file", "file": "b.py"})
        elif k < 0.36:
            steps.append({"op": "reload"})
        elif k < 0.70:
            steps.append({"op": "ctl", "sub": rng.choice(["append", "append", "set", "set", "pop", "clear", "del", "none"]), "key": rng.choice(["k1", "k2"]), "kind": rng.choice(["state", "state_multi", "event", "time", "service", "combo"]), "extras": rng.choice([[], ["shutdown"], ["startup", "shutdown"]])})
        elif k < 0.82:
            steps.append({"op": "remove_entity"})
        elif k < 0.90:
            steps.append({"op": "recreate_entity"})
        else:
            steps.append({"op": "occ_only"})
    steps.append({"op": "unload"})
    return m, steps


# ------------------------------------------------------------------ execution
_BASELINE = {}


def baseline(legacy):
    from ..residue import snapshot
    from ..sim import run_world

    if legacy in _BASELINE:
        return _BASELINE[legacy]
    out = {}

    def pre(w):
        w.hass.states.async_set("pyscript.e0", "y", {})
        w.hass.states.async_set("pyscript.e1", "v", {"a1": 1})

    async def main(w):
        await w.quiesce()
        out["running"] = snapshot(w)
        await w.unload()
        await w.advance(1)
        await w.quiesce()
        out["unloaded"] = snapshot(w)

    run_world(main, files={}, legacy=legacy, pre_setup=pre)
    _BASELINE[legacy] = out
    return out


def run_case(case):
    import gc

    from ..residue import diff, snapshot
    from ..sim import run_world

    rng = random.Random(case["seed"])
    m, steps = gen_history(rng)
    legacy = case["legacy"]
    base = baseline(legacy)
    viol = []
    obs = {k: 0 for k in REQUIRED_OBS}
    startup_exp = {}  # gen -> expected startup runs
    shutdown_exp = {}
    phases = []  # (rec index start, rec index end, live gens snapshot, dead gens)
    cover = {"ops": []}
    sigs = []

    def note_new(inst):
        if inst.get("victim"):
            m.dead[inst["gen"]] = inst
            obs["deleted_while_starting"] += 1
            return
        if inst.get("shadow"):
            m.dead[inst["shadow"]["gen"]] = inst["shadow"]
            obs["redefined_at_load"] += 1
        if "startup" in inst["extras"] and "time" in inst["trigs"]:
            startup_exp[inst["gen"]] = 1
        obs["closure_instances"] += int(inst["where"] in ("list", "dict"))

    def note_dead(inst):
        m.dead[inst["gen"]] = inst
        if "shutdown" in inst["extras"] and "time" in inst["trigs"]:
            shutdown_exp[inst["gen"]] = 1
        obs["deactivations"] += 1

    def pre(w):
        w.hass.states.async_set("pyscript.e0", "y", {})
        w.hass.states.async_set("pyscript.e1", "v", {"a1": 1})

    async def occ_phase(w, label):
        from homeassistant.exceptions import HomeAssistantError, ServiceNotFound

        start = len(w.rec)
        live = {i["gen"]: i for i in m.live()}
        w.hass.states.async_set("pyscript.e0", "x", {})
        await w.settle()
        w.hass.states.async_set("pyscript.e0", "y", {})
        await w.settle()
        w.hass.bus.async_fire("ev9", {})
        await w.settle()
        await w.advance(5.5)
        called = {}
        names = {i["name"] for i in list(live.values()) + list(m.dead.values()) if "service" in i["trigs"]}
        for name in sorted(names):
            try:
                await w.hass.services.async_call("pyscript", f"svc_{name}", {}, blocking=True)
                called[name] = True
            except (ServiceNotFound, HomeAssistantError):
                called[name] = False
        await w.settle()
        phases.append({"label": label, "start": start, "end": len(w.rec), "live": live, "called": called, "e1": w.hass.states.get("pyscript.e1") is not None})
        obs["occurrence_phases"] += 1

    def check_tables(w, label):
        snap = snapshot(w)
        obs["residue_snapshots"] += 1
        live = m.live()
        n_e0 = sum(1 for i in live if "state" in i["trigs"] or "state_multi" in i["trigs"])
        n_e1 = sum(1 for i in live if "state_multi" in i["trigs"])
        n_ev = sum(1 for i in live if "event" in i["trigs"])
        exp_notify = {k: v for k, v in (("pyscript.e0", n_e0), ("pyscript.e1", n_e1)) if v}
        if snap["state_notify"] != exp_notify:
            viol.append({"mech": "state_subscription_residue", "msg": f"after {label}: State.notify queues {snap['state_notify']} expected {exp_notify}"})
        ev_listeners = snap["bus_listeners"].get("ev9", 0)
        exp_l = (1 if n_ev else 0) if legacy else n_ev
        if ev_listeners != exp_l or (legacy and snap["event_notify"].get("ev9", 0) != n_ev):
            viol.append({"mech": "event_listener_residue", "msg": f"after {label}: bus listeners for ev9 = {ev_listeners} (expected {exp_l}), Event.notify = {snap['event_notify']} (live event triggers {n_ev})"})
        exp_svc = {f"pyscript.svc_{i['name']}" for i in live if "service" in i["trigs"]}
        got_svc = {s for s in snap["services"] if s.startswith("pyscript.svc_")}
        if got_svc != exp_svc:
            mech = "service_left_registered" if got_svc - exp_svc else "declared_service_missing"
            viol.append({"mech": mech, "msg": f"after {label}: registered {sorted(got_svc)} expected {sorted(exp_svc)}"})
        never = [s for s in snap["services"] if s.startswith("pyscript.never_")]
        if never:
            viol.append({"mech": "service_left_registered", "msg": f"after {label}: services of deleted functions still registered: {never}"})
        # trigger tasks
        if legacy:
            # (a function whose only trigger is a time trigger without a future instant has nothing left to wait for)
            exp_tasks = sum(1 for i in live if set(i["trigs"]) - {"service"} - ({"time"} if i.get("noperiod") else set()))
            got_tasks = sum(1 for t in snap["pyscript_tasks"] if "trigger_watch" in t)
        else:
            exp_tasks = sum(("state" in i["trigs"] or "state_multi" in i["trigs"]) + ("time" in i["trigs"] and not i.get("noperiod")) for i in live)
            got_tasks = sum(1 for t in snap["pyscript_tasks"] if "_cycle" in t)
        if got_tasks != exp_tasks:
            viol.append({"mech": "trigger_task_residue", "msg": f"after {label}: {got_tasks} trigger tasks, expected {exp_tasks}: {snap['pyscript_tasks']}"})
        return snap

    async def main(w):
        await w.quiesce()
        if rng.random() < 0.3:
            # a Jupyter-style session context with a decorated function: it lives until the integration is unloaded
            from custom_components.pyscript.eval import AstEval
            from custom_components.pyscript.function import Function
            from custom_components.pyscript.global_ctx import GlobalContext, GlobalContextMgr

            m.gen += 1
            m.jup = {"gen": m.gen, "name": "jf0", "trigs": sorted(rng.sample(["state", "event", "service"], rng.randint(1, 3))), "extras": [], "where": "jupyter"}
            gctx = GlobalContext("jupyter_0", global_sym_table={"__name__": "jupyter_0"}, manager=GlobalContextMgr)
            gctx.set_auto_start(True)
            GlobalContextMgr.set("jupyter_0", gctx)
            ast_ = AstEval("jupyter_0", gctx)
            Function.install_ast_funcs(ast_)
            ast_.parse("\n".join(render_inst(m.jup)) + "\n", filename="jupyter_0")
            await ast_.eval()
            await w.quiesce()
            note_new(m.jup)
            obs["session_contexts"] += 1
        for f_ in m.files:
            for inst in m.files[f_].values():
                note_new(inst)
        await occ_phase(w, "initial load")
        check_tables(w, "initial load")
        for si, st in enumerate(steps):
            op = st["op"]
            label = f"step {si} {op}"
            cover["ops"].append(op if op != "ctl" else f"ctl:{st['sub']}")
            late_inst = None
            if op == "rewrite" and st.get("late") and m.present["a.py"]:
                # a service run of the old a.py that is still waiting when the file is replaced
                m.gen += 1
                late_inst = {"gen": m.gen, "name": f"late{m.gen}", "trigs": [st["late_kind"]], "extras": [], "where": "dead-context"}
                m.dead[late_inst["gen"]] = late_inst
                w.hass.async_create_task(w.hass.services.async_call("pyscript", "ctl_late", {"kinds": late_inst["trigs"], "extras": [], "gen": late_inst["gen"], "name": late_inst["name"]}, blocking=True))
                await w.settle()
                obs["closures_defined_in_dead_context"] += 1
            if op == "rewrite":
                f = st["file"]
                old = m.files[f]
                new = {}
                for name, inst in old.items():
                    if inst.get("kills") or (st["drop"] and len(old) > 1 and name == sorted(old)[-1]):
                        continue
                    m.add(new, name, f)
                if st["add"]:
                    name = f"{f[0]}f{len(old) + rng.randint(3, 9)}"
                    while name in new or name + "_k" in new:
                        name += "n"  # (never reuse the name of a function that a start-up killer of this file deletes)
                    m.add(new, name, f)
                if m.present[f]:
                    for inst in old.values():
                        note_dead(inst)
                m.files[f] = new
                m.present[f] = True
                for inst in new.values():
                    note_new(inst)
                if f == "a.py":
                    # the file's containers are re-created: every closure dies with the old context
                    for inst in m.closures["list"] + list(m.closures["dict"].values()):
                        note_dead(inst)
                    m.closures = {"list": [], "dict": {}}
                w.write(f, m.render_file(f))
                await w.reload()
                if late_inst is not None:
                    w.hass.bus.async_fire("c9_release", {})
                    await w.settle()
                    if not [r for r in w.rec if r["tag"] == "late_defined" and r["gen"] == late_inst["gen"]]:
                        viol.append({"mech": "running_function_killed_by_reload", "msg": f"{label}: the service run that was waiting when its file was reloaded did not continue"})
            elif op == "delete_file":
                f = st["file"]
                if m.present[f]:
                    for inst in m.files[f].values():
                        note_dead(inst)
                    m.present[f] = False
                    w.remove(f)
                await w.reload()
            elif op == "reload":
                await w.reload()
            elif op == "ctl":
                if not m.present["a.py"]:
                    continue
                sub = st["sub"]
                data = {"op": sub, "key": st["key"]}
                if sub in ("append", "set"):
                    kinds = ["state", "event"] if st["kind"] == "combo" else [st["kind"]]
                    m.gen += 1
                    name = f"c{m.gen}"
                    inst = {"gen": m.gen, "name": name, "trigs": sorted(kinds), "extras": st["extras"] if kinds == ["time"] else [], "where": "list" if sub == "append" else "dict"}
                    data.update(kinds=kinds if st["kind"] != "combo" else ["combo"], extras=inst["extras"], gen=m.gen, name=name)
                    if sub == "append":
                        m.closures["list"].append(inst)
                    else:
                        if st["key"] in m.closures["dict"]:
                            note_dead(m.closures["dict"][st["key"]])
                        m.closures["dict"][st["key"]] = inst
                    note_new(inst)
                elif sub == "pop":
                    if not m.closures["list"]:
                        continue
                    note_dead(m.closures["list"].pop())
                elif sub == "clear":
                    for inst in m.closures["list"]:
                        note_dead(inst)
                    m.closures["list"] = []
                elif sub in ("del", "none"):
                    if st["key"] not in m.closures["dict"]:
                        continue
                    note_dead(m.closures["dict"].pop(st["key"]))
                await w.hass.services.async_call("pyscript", "ctl", data, blocking=True)
            elif op == "remove_entity":
                w.hass.states.async_remove("pyscript.e1")
            elif op == "recreate_entity":
                w.hass.states.async_set("pyscript.e1", "v", {"a1": 1})
            elif op == "unload":
                for inst in m.live():
                    note_dead(inst)
                m.present = {"a.py": False, "b.py": False}
                m.closures = {"list": [], "dict": {}}
                m.jup = None
                await w.unload()
            await w.quiesce()
            gc.collect()
            await w.quiesce()
            if op == "unload":
                await w.advance(6)
                await w.quiesce()
                snap = snapshot(w)
                obs["residue_snapshots"] += 1
                d = diff(snap, base["unloaded"])
                d.pop("contexts", None)
                if d:
                    viol.append({"mech": "residue_after_unload", "msg": f"after unload, relative to the empty-folder baseline: {d}"})
            else:
                await occ_phase(w, label)
                check_tables(w, label)

    # schedule perturbation at an existing suspension point: ServiceDecorator.start() awaits State.get_service_params(), which
    # really suspends in a live system (descriptions are loaded in the executor) but is answered from a cache here
    import asyncio

    from custom_components.pyscript.state import State

    orig_gsp = State.__dict__["get_service_params"]
    nyield = rng.choice([0, 0, 1, 2, 3])

    async def slow_gsp(cls):
        for _ in range(nyield):
            await asyncio.sleep(0)
        return await orig_gsp.__func__(cls)

    State.get_service_params = classmethod(slow_gsp)
    obs["start_suspension_injected"] = int(nyield > 0)
    try:
        w, _ = run_world(main, files={"a.py": m.render_file("a.py"), "b.py": m.render_file("b.py")}, legacy=legacy, tick=rng.choice([1e-6, 5e-6, 5e-5]), pre_setup=pre, keep=True)
    finally:
        State.get_service_params = orig_gsp
    # ---- generation monitor
    runs_all = [r for r in w.rec if r["tag"] == "run"]
    obs["runs_observed"] = len(runs_all)
    for ph in phases:
        runs = [r for r in w.rec[ph["start"] : ph["end"]] if r["tag"] == "run"]
        by_gen = {}
        for r in runs:
            by_gen.setdefault(r["gen"], []).append(r)
        for gen, rs in by_gen.items():
            if gen not in ph["live"]:
                kinds = sorted({str(r["tt"]) for r in rs if r["ttime"] not in ("startup", "shutdown")})
                if kinds:
                    viol.append({"mech": "dead_function_ran", "msg": f"{ph['label']}: generation {gen} ({m.dead.get(gen)}) is deactivated but ran for {kinds}"})
        for gen, inst in ph["live"].items():
            rs = [r for r in by_gen.get(gen, []) if r["ttime"] not in ("startup", "shutdown")]
            cnt = {}
            for r in rs:
                cnt[r["tt"]] = cnt.get(r["tt"], 0) + 1
            t = inst["trigs"]
            want_state = 1 if ("state" in t or ("state_multi" in t)) else 0
            if cnt.get("state", 0) != want_state:
                viol.append({"mech": "live_function_wrong_run_count", "msg": f"{ph['label']}: live {inst} ran {cnt.get('state', 0)}x for the state occurrence (expected {want_state}) e1_present={ph['e1']}"})
            if cnt.get("event", 0) != (1 if "event" in t else 0):
                viol.append({"mech": "live_function_wrong_run_count", "msg": f"{ph['label']}: live {inst} ran {cnt.get('event', 0)}x for the event"})
            nt = cnt.get("time", 0)
            if inst.get("noperiod"):
                if nt:
                    viol.append({"mech": "live_function_wrong_run_count", "msg": f"{ph['label']}: live {inst} (no periodic time specification) ran {nt}x for time triggers"})
            elif ("time" in t and nt not in (1, 2)) or ("time" not in t and nt):
                viol.append({"mech": "live_function_wrong_run_count", "msg": f"{ph['label']}: live {inst} ran {nt}x for time triggers in 5.5 s"})
            if "service" in t:
                if not ph["called"].get(inst["name"]):
                    viol.append({"mech": "declared_service_missing", "msg": f"{ph['label']}: service of live {inst} not callable"})
                elif cnt.get("service", 0) != 1:
                    viol.append({"mech": "service_ran_wrong_generation", "msg": f"{ph['label']}: service call ran live {inst} {cnt.get('service', 0)}x; runs {[ (r['gen'], r['tt']) for r in runs if r['fn']==inst['name']]}"})
    # ---- startup / shutdown exactly once per definition / removal
    for gen in sorted(set(startup_exp) | {r["gen"] for r in runs_all if r["ttime"] == "startup"}):
        n = sum(1 for r in runs_all if r["gen"] == gen and r["ttime"] == "startup")
        obs["startup_runs"] += n
        if n != startup_exp.get(gen, 0):
            viol.append({"mech": "startup_run_count", "msg": f"generation {gen}: {n} startup runs, expected {startup_exp.get(gen, 0)}; instance {[i for i in list(m.dead.values()) + m.live() if i['gen'] == gen]}"})
    for gen in sorted(set(shutdown_exp) | {r["gen"] for r in runs_all if r["ttime"] == "shutdown"}):
        n = sum(1 for r in runs_all if r["gen"] == gen and r["ttime"] == "shutdown")
        obs["shutdown_runs"] += n
        if n != shutdown_exp.get(gen, 0):
            viol.append({"mech": "shutdown_run_count", "msg": f"generation {gen}: {n} shutdown runs, expected {shutdown_exp.get(gen, 0)}"})
    if w.escapes:
        viol.append({"mech": "escaped_exception", "msg": str(w.escapes[:3])[:1200]})
    errs = w.logs(level="ERROR")
    if errs:
        viol.append({"mech": "unexpected_error_log", "msg": str(errs[:2])[:1200]})
    # de-duplicate by mechanism, keep first message
    seen, uniq = set(), []
    for v in viol:
        if v["mech"] not in seen:
            seen.add(v["mech"])
            uniq.append(v)
    return {
        "verdict": "violated" if uniq else "held",
        "violations": uniq,
        "nontrivial": obs["deactivations"] > 0 and obs["occurrence_phases"] > 1,
        "obs": dict(obs, legacy_cases=int(legacy), default_cases=int(not legacy)),
        "cover": cover,
        "sig": "|".join(cover["ops"]) + f"|{legacy}",
    }


def sample(case, res):
    rng = random.Random(case["seed"])
    m, steps = gen_history(rng)
    return {"legacy": case["legacy"], "a.py": m.render_file("a.py")[:1500], "steps": steps}
