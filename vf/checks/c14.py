"""C14 — every run is an independent task whose exit always cleans up."""

from __future__ import annotations

import asyncio
import random
import threading

ID = "C14"
LEVEL = "fault_enumeration"
BUDGET = {"quick": 55, "thorough": 900}
QUICK_CASES = 1300  # generator items in the quick tier (fixed amount of work; BUDGET is then only a safety cap)
FLOOR = {"quick": 400, "thorough": 400}  # conclusive cases below which a run is inconclusive (the thorough tier is time-budgeted: same floor)
TIMEOUT = 90
REQUIRED_OBS = ["graphs", "tasks_created", "callbacks_added", "callbacks_run", "cancel_points_injected", "waits_checked", "executor_calls", "registry_checks", "inner_service_calls"]
RULE = (
    "task graphs of <= 4 tasks (a service run creating children with task.create; script and native done-callbacks: several per task, "
    "same function twice, removed before completion, raising, sleeping; task.wait; task.cancel of self/other; task.unique; task.executor "
    "returning and raising; exits by return / raise / cancel) on the virtual clock, both subsystems. Fault enumeration: a first execution "
    "counts the suspension points of the victim task (incl. those inside its done-callbacks while the task is finishing); the case is "
    "re-executed with Function.reaper_cancel(victim) - what task.cancel and task.unique do - issued at the n-th suspension for every n (quick: "
    "<= 10 points spread over the range). Monitors: every registered (task, callback) pair runs exactly once with its arguments and none "
    "after removal, task.wait/result reflect the outcome, other tasks are neither delayed nor terminated, and at quiescence our_tasks / "
    "task2cb / task2context / unique maps hold no trace of an ended task. Non-trivial: a task ends other than by plain return, or has >= 1 callback."
)
ASSUMPTIONS = [
    "cancellation is injected only at real suspension points of the victim (counted on a pure-python asyncio.Task subclass)",
    "a done-callback that is itself cut short by the injected cancellation counts as run (it was started exactly once)",
]
SCRIPT = '''
tasks = {}

def cb(tag, *a, **k):
    vf.rec("cb", tag_cb=tag, a=a, k=k)

def cb2(tag, *a, **k):
    vf.rec("cb", tag_cb=tag, a=a, k=k)

def cb_raise(tag):
    vf.rec("cb", tag_cb=tag)
    raise ValueError("cbboom")

def cb_sleep(tag):
    vf.rec("cb", tag_cb=tag)
    task.sleep(1)
    vf.rec("cb_post", tag_cb=tag)

class Cbk:
    """Two instances: the same method of each is a different callback."""

    def __init__(self, who):
        self.who = who

    def done(self, tag):
        vf.rec("cb", tag_cb=tag, who=self.who)

KA = Cbk("A")
KB = Cbk("B")

def cb_unique(tag):
    # a callback that claims a unique name: the name dies with the task that is ending
    vf.rec("cb", tag_cb=tag)
    task.unique("u_cb")

def cb_once(tag):
    # a one-shot callback: takes itself off the task it is running for
    vf.rec("cb", tag_cb=tag)
    task.remove_done_callback(task.current_task(), cb_once)

CBS = {"cb": cb, "cb2": cb2, "cb_raise": cb_raise, "cb_sleep": cb_sleep, "cb_once": cb_once, "cb_unique": cb_unique, "m_a": KA.done, "m_b": KB.done}

def child(kind, dur, cid):
    vf.rec("child_start", cid=cid)
    task.sleep(dur)
    if kind == "raise":
        vf.rec("child_raise", cid=cid)
        raise KeyError("childboom")
    if kind == "unique":
        task.unique("u1")
        task.unique("u2")
        task.sleep(dur)
    vf.rec("child_end", cid=cid)
    return cid * 10

def interpret(plan, me):
    for st in plan:
        op = st[0]
        if op == "create":
            tasks[st[1]] = task.create(child, st[2], st[3], st[1])
            vf.rec("created", cid=st[1], serial=vf.task(tasks[st[1]]))
        elif op == "cb_add":
            task.add_done_callback(tasks[st[1]] if st[1] != "me" else task.current_task(), CBS[st[2]], st[3], *st[4], **st[5])
        elif op == "cb_add_native":
            task.add_done_callback(tasks[st[1]] if st[1] != "me" else task.current_task(), vf.native_cb, st[2])
        elif op == "cb_remove":
            task.remove_done_callback(tasks[st[1]] if st[1] != "me" else task.current_task(), CBS[st[2]])
        elif op == "cancel":
            task.cancel(tasks[st[1]])
        elif op == "cancel_self":
            vf.rec("cancel_self")
            task.cancel()
        elif op == "wait":
            done, pending = task.wait({tasks[c] for c in st[1]})
            res = {}
            for c in st[1]:
                t = tasks[c]
                if not t.done():
                    res[c] = "pending"
                elif t.cancelled():
                    res[c] = "cancelled"
                elif t.exception() is not None:
                    res[c] = "exc:" + type(t.exception()).__name__
                else:
                    res[c] = ["result", t.result()]
            vf.rec("wait", res=res, ndone=len(done), npending=len(pending))
        elif op == "sleep":
            task.sleep(st[1])
        elif op == "unique":
            task.unique(st[1])
        elif op == "executor":
            try:
                r = task.executor(vf.blocking, st[1])
                vf.rec("executor", r=r)
            except ZeroDivisionError:
                vf.rec("executor", r="ZeroDivisionError")
        elif op == "call_inner":
            r = service.call("pyscript", "inner_svc", x=st[1], blocking=True, return_response=True)
            vf.rec("inner_ret", r=r, serial=vf.task())
        elif op == "raise":
            vf.rec("main_raise")
            raise IndexError("mainboom")
    vf.rec("main_end")

@service(supports_response="optional")
def inner_svc(x=None):
    vf.rec("inner", serial=vf.task(), x=x)
    task.sleep(0.3)
    return {"x": x}

@service
def graph(plan=None):
    vf.rec("main_start", serial=vf.task())
    interpret(plan, None)

@event_trigger("bystander")
def bystander(n=None, **kw):
    vf.rec("by_start", n=n)
    task.sleep(2)
    vf.rec("by_end", n=n)
'''


def warm():
    from ..warm import warm as _w

    _w()


def gen_plan(rng):
    plan = []
    ncb = 0
    cids = []
    kinds = {}
    for cid in range(rng.randint(0, 3)):
        kind = rng.choice(["ok", "ok", "raise", "unique"])
        plan.append(["create", cid, kind, rng.choice([0.5, 1.5, 3.0])])
        cids.append(cid)
        kinds[cid] = kind
    targets = cids + ["me"]
    for _ in range(rng.randint(0, 5)):
        tgt = rng.choice(targets)
        k = rng.random()
        ncb += 1
        if k < 0.55:
            plan.append(["cb_add", tgt, rng.choice(["cb", "cb", "cb2", "cb_raise", "cb_sleep", "cb_once", "cb_unique", "m_a", "m_b", "m_a", "m_b"]), f"t{ncb}", [ncb] if rng.random() < 0.5 else [], {"kx": ncb} if rng.random() < 0.3 else {}])
            if plan[-1][2] in ("cb_raise", "cb_sleep", "cb_once", "cb_unique", "m_a", "m_b"):
                plan[-1][4], plan[-1][5] = [], {}
        elif k < 0.75:
            plan.append(["cb_add_native", tgt, f"n{ncb}"])
        else:
            plan.append(["cb_remove", tgt, rng.choice(["cb", "cb2", "cb_raise", "m_a"])])
    tail = []
    suspended = False
    for _ in range(rng.randint(0, 4)):
        k = rng.random()
        if k < 0.25 and cids:
            if suspended:
                continue  # the child may have ended already: task.cancel of a finished task is a TypeError by design
            tail.append(["cancel", rng.choice(cids)])
        elif k < 0.5 and cids:
            tail.append(["wait", sorted(rng.sample(cids, rng.randint(1, len(cids))))])
            suspended = True
        elif k < 0.7:
            tail.append(["sleep", rng.choice([0, 0.7, 2.0])])
            suspended = True
        elif k < 0.8:
            tail.append(["unique", "u2"])
            tail.append(["unique", "u1"])
        elif k < 0.88:
            tail.append(["executor", rng.choice([3, 0])])
            suspended = True
        elif k < 0.94:
            # a blocking call of a pyscript service from this run: the service runs as a task of its own
            tail.append(["call_inner", rng.randint(1, 99)])
            suspended = True
        else:
            tail.append(rng.choice([["raise"], ["cancel_self"]]))
            break
    return plan + tail


def generate(tier, seed, gated=frozenset()):
    rng = random.Random(f"C14-{tier}-{seed}")
    i = 0
    while True:
        plan = gen_plan(rng)
        victim = rng.choice(["main", "main", 0, 1])
        for legacy in (False, True):
            yield {"plan": plan, "legacy": legacy, "victim": victim, "tick": rng.choice([1e-6, 5e-6, 5e-5]), "n": i, "max_points": 10 if tier == "quick" else 40}
        i += 1


# ------------------------------------------------------------------ one execution
def execute(case, cancel_at=None):
    """Run the plan once.  cancel_at = n: reaper_cancel(victim) when the victim reaches its n-th suspension."""
    from ..sim import CountingTask, run_world, task_serial

    plan = case["plan"]
    native = []
    state = {"victim_serial": None, "steps": 0, "fired": False}
    loop_thread = threading.get_ident()

    def blocking(x):
        if threading.get_ident() == loop_thread:
            return "ran-on-loop-thread"
        return 100 // x

    def native_cb(tag):
        native.append(tag)

    async def main(w):
        from custom_components.pyscript.function import Function

        def on_suspend(task, n):
            if task.vf_serial == state["victim_serial"]:
                state["steps"] = n
                if cancel_at is not None and n == cancel_at and not state["fired"]:
                    state["fired"] = True
                    w._rec("inject", n=n)
                    Function.reaper_cancel(task)

        CountingTask.on_suspend = on_suspend
        await w.quiesce()
        state["our_tasks0"] = len(Function.our_tasks)
        w.hass.bus.async_fire("bystander", {"n": 1})
        call = w.loop.create_task(_call(w, plan))
        await asyncio.sleep(0)
        # learn the victim's task serial from the script's own records
        for _ in range(200):
            if state["victim_serial"] is None:
                for r in w.rec:
                    if case["victim"] == "main" and r["tag"] == "main_start":
                        state["victim_serial"] = r["serial"]
                    elif case["victim"] != "main" and r["tag"] == "created" and r["cid"] == case["victim"]:
                        state["victim_serial"] = r["serial"]
            if state["victim_serial"] is not None:
                break
            await asyncio.sleep(0)
        await w.advance(1.0)
        w.hass.bus.async_fire("bystander", {"n": 2})  # overlaps run 1, which is still sleeping
        await w.advance(14.0)
        await w.quiesce()
        CountingTask.on_suspend = None
        if not call.done():
            call.cancel()
        reg = {
            "our_tasks": len(Function.our_tasks),
            "task2cb": len(Function.task2cb),
            "task2context": len(Function.task2context),
            "unique_name2task": sorted(Function.unique_name2task),
            "unique_task2name": len(Function.unique_task2name),
        }
        return reg

    async def _call(w, plan):
        try:
            await w.hass.services.async_call("pyscript", "graph", {"plan": plan}, blocking=True)
        except (asyncio.CancelledError, Exception):  # noqa: BLE001
            pass

    w, reg = run_world(
        main,
        files={"c14.py": SCRIPT},
        legacy=case["legacy"],
        tick=case["tick"],
        extra_functions={"vf.native_cb": native_cb, "vf.blocking": blocking, "vf.task": lambda t=None: task_serial(t)},
        keep=True,
    )
    return w, reg, native, state


def run_case(case):
    # first execution: count suspension points of the victim
    w, reg, native, state = execute(case, None)
    viol, obs = check_execution(case, w, reg, native, state, None)
    n_points = state["steps"]
    points = list(range(1, n_points + 1))
    mp = case.get("max_points", 10)
    if len(points) > mp:
        step = len(points) / mp
        points = sorted({points[int(i * step)] for i in range(mp)} | {points[-1]})
    injected = 0
    sigs = []
    for n in points:
        w2, reg2, native2, state2 = execute(case, n)
        v2, o2 = check_execution(case, w2, reg2, native2, state2, n)
        injected += int(state2["fired"])
        for v in v2:
            v["msg"] = f"[cancel injected at suspension {n} of victim {case['victim']}] " + v["msg"]
        viol += v2
        for k, val in o2.items():
            obs[k] = obs.get(k, 0) + val
        sigs.append(f"{n}:{len(w2.rec)}")
    obs["cancel_points_injected"] = injected
    obs["graphs"] = 1
    seen, uniq = set(), []
    for v in viol:
        if v["mech"] not in seen:
            seen.add(v["mech"])
            uniq.append(v)
    plan = case["plan"]
    nontrivial = any(st[0] in ("cb_add", "cb_add_native", "cancel", "raise", "cancel_self") for st in plan) or injected > 0
    return {
        "verdict": "violated" if uniq else "held",
        "violations": uniq,
        "nontrivial": nontrivial,
        "obs": dict(obs, legacy_cases=int(case["legacy"]), default_cases=int(not case["legacy"])),
        "cover": {"ops": [st[0] for st in plan], "victim": [str(case["victim"])]},
        "sigs": [f"{case['legacy']}|{case['victim']}|" + "|".join(sigs)][:1],
    }


def check_execution(case, w, reg, native, state, cancel_at):
    plan = case["plan"]
    viol = []
    obs = {"callbacks_added": 0, "callbacks_run": 0, "waits_checked": 0, "executor_calls": 0, "tasks_created": 0, "registry_checks": 1, "inner_service_calls": 0}
    recs = w.rec
    fired = state["fired"]
    victim = case["victim"]
    # all registrations come before the first suspending step, so they all happened unless the main task was cut before
    # even starting (not possible: injection needs a suspension of the victim)
    first_susp = next((i for i, st in enumerate(plan) if st[0] in ("wait", "sleep", "unique", "executor", "cancel", "cancel_self", "raise", "call_inner")), len(plan))
    # with the main task as victim the injected cancel can land between registration steps only if those suspend: they do not
    expected = {}
    kinds = {}
    for st in plan[:first_susp]:
        if st[0] == "create":
            obs["tasks_created"] += 1
            kinds[st[1]] = st[2]
        elif st[0] == "cb_add":
            expected[(str(st[1]), st[2])] = {"tag": st[3], "a": list(st[4]), "k": dict(st[5])}
        elif st[0] == "cb_add_native":
            expected[(str(st[1]), "native")] = {"tag": st[2]}
        elif st[0] == "cb_remove":
            expected.pop((str(st[1]), st[2]), None)
    created = {r["cid"] for r in recs if r["tag"] == "created"}
    # registrations on children that were never created cannot exist (plan order guarantees creation first)
    obs["callbacks_added"] = len(expected)
    runs = {}
    for r in recs:
        if r["tag"] == "cb":
            runs.setdefault(r["tag_cb"], []).append(r)
    for tag in native:
        runs.setdefault(tag, []).append({"native": True})
    for (tgt, fn), e in expected.items():
        got = runs.pop(e["tag"], [])
        obs["callbacks_run"] += len(got)
        if len(got) != 1:
            mech = "done_callback_not_run" if not got else "done_callback_run_twice"
            viol.append({"mech": mech, "msg": f"callback {fn}({e['tag']}) registered on task {tgt} ran {len(got)} times; plan {plan}"})
        elif fn != "native" and fn in ("cb", "cb2") and (got[0]["a"] != e["a"] or got[0]["k"] != e["k"]):
            viol.append({"mech": "done_callback_wrong_args", "msg": f"callback {fn}({e['tag']}) got a={got[0]['a']} k={got[0]['k']} expected {e}"})
    # a service called by the run is a task of its own: it neither shares the caller's task nor ends the caller's bookkeeping
    main_serial = next((r["serial"] for r in recs if r["tag"] == "main_start"), None)
    for r in recs:
        if r["tag"] == "inner":
            obs["inner_service_calls"] = obs.get("inner_service_calls", 0) + 1
            if r["serial"] == main_serial:
                viol.append({"mech": "service_call_shares_callers_task", "msg": f"the service called from the run executed in the caller's task {main_serial}; plan {plan}"})
        if r["tag"] == "inner_ret":
            early = [c for c in recs if c["tag"] == "cb" and c["seq"] < r["seq"] and any(k[0] == "me" and e["tag"] == c["tag_cb"] for k, e in expected.items())]
            if early:
                viol.append({"mech": "done_callback_ran_before_task_ended", "msg": f"done-callbacks of the calling run {[c['tag_cb'] for c in early]} ran before the run continued after its service call; plan {plan}"})
    if runs:
        viol.append({"mech": "removed_or_unknown_callback_ran", "msg": f"callbacks ran that were not registered (or were removed): {sorted(runs)}; plan {plan}"})
    # children: independent of the main task and of each other
    for cid in created:
        started = any(r["tag"] == "child_start" and r["cid"] == cid for r in recs)
        ended = any(r["tag"] in ("child_end", "child_raise") and r["cid"] == cid for r in recs)
        cancelled_by_plan = any(st[0] == "cancel" and st[1] == cid for st in plan)
        is_victim = victim == cid and fired
        displaced = kinds.get(cid) == "unique" and (sum(1 for c in created if kinds.get(c) == "unique") > 1 or any(st[0] == "unique" for st in plan))
        if started and not ended and not cancelled_by_plan and not is_victim and not displaced:
            viol.append({"mech": "independent_task_terminated", "msg": f"child {cid} ({kinds.get(cid)}) started but never finished although nobody cancelled it; plan {plan}"})
    # bystander runs: start immediately, end 2 s later, regardless of what the graph does
    for n in (1, 2):
        s = [r for r in recs if r["tag"] == "by_start" and r["n"] == n]
        e = [r for r in recs if r["tag"] == "by_end" and r["n"] == n]
        if len(s) != 1 or len(e) != 1 or abs((e[0]["t"] - s[0]["t"]) - 2.0) > 0.05 or e[0]["task"] != s[0]["task"]:
            viol.append({"mech": "bystander_run_disturbed", "msg": f"bystander {n}: starts {[(r['t']) for r in s]} ends {[(r['t']) for r in e]}"})
    # task.wait results
    for r in recs:
        if r["tag"] == "wait":
            obs["waits_checked"] += 1
            for c, res in r["res"].items():
                c = int(c)
                k = kinds.get(c)
                cancelled_by_plan = any(st[0] == "cancel" and st[1] == c for st in plan)
                if res == "pending":
                    viol.append({"mech": "wait_returned_before_done", "msg": f"task.wait returned while child {c} pending"})
                elif isinstance(res, list) and res[1] != (None if k == "raise" else c * 10):
                    viol.append({"mech": "wait_result_wrong", "msg": f"child {c} ({k}) result {res}"})
                elif res == "cancelled" and not (cancelled_by_plan or (victim == c and fired) or k == "unique"):
                    viol.append({"mech": "independent_task_terminated", "msg": f"child {c} reported cancelled although nobody cancelled it"})
    for r in recs:
        if r["tag"] == "executor":
            obs["executor_calls"] += 1
            if r["r"] not in (33, "ZeroDivisionError"):
                viol.append({"mech": "executor_wrong", "msg": f"task.executor gave {r['r']}"})
    # registries: only the reaper and waiter service tasks may remain
    if reg["our_tasks"] != state.get("our_tasks0") or reg["task2cb"] or reg["task2context"] or reg["unique_name2task"] or reg["unique_task2name"]:
        viol.append({"mech": "ended_task_left_in_registries", "msg": f"at quiescence: {reg} (our_tasks before the graph ran: {state.get('our_tasks0')}); plan {plan}"})
    errs = [r for r in w.logs(level="ERROR") if not any(x in r["msg"] for x in ("cbboom", "childboom", "mainboom"))]
    if errs:
        viol.append({"mech": "unexpected_error_log", "msg": str(errs[:2])[:900]})
    esc = [e for e in w.escapes if not any(x in str(e) for x in ("cbboom", "childboom", "mainboom"))]
    if esc:
        viol.append({"mech": "escaped_exception", "msg": str(esc[:2])[:900]})
    return viol, obs


def sample(case, res):
    return {"legacy": case["legacy"], "victim": case["victim"], "plan": case["plan"], "obs": res.get("obs")}
