"""C12 — a @service exists exactly while declared and calls the current definition."""

from __future__ import annotations

import random

ID = "C12"
LEVEL = "exploration"
BUDGET = {"quick": 55, "thorough": 900}
QUICK_CASES = 1000  # generator items in the quick tier (fixed amount of work; BUDGET is then only a safety cap)
FLOOR = {"quick": 300, "thorough": 300}  # conclusive cases below which a run is inconclusive (the thorough tier is time-budgeted: same floor)
TIMEOUT = 120
REQUIRED_OBS = ["steps", "has_service_checks", "calls_made", "calls_ran_expected_generation", "not_found_as_expected", "responses_checked", "outgoing_calls_checked", "redefinitions", "rejected_declarations", "overlapping_call_pairs", "late_imports"]
RULE = (
    "random histories over two script files and a dynamically redefined global function: @service functions with 1-2 names (stacked "
    "decorators), names shared inside a file and across files (second context must be refused), supports_response none/optional/only; "
    "operations: rewrite file (new generations, added/dropped functions, renamed services) + reload, delete file + reload, plain reload, "
    "run-time redefinition of a global @service function from a running context, unload; after every operation: has_service for the whole "
    "name universe vs the registry model, a call of every name with fresh data (which generation ran, keyword data, trigger_type, response), "
    "outgoing service.call / domain.service() data equality. Non-trivial: >= 1 redefinition or deletion and >= 1 call."
)
ASSUMPTIONS = [
    "a declaration refused because another context owns the name stays inert until its own file is reloaded",
    "contexts load in name order (file.a before file.b), as load_scripts sorts them",
    "only service-only functions take part in cross-context conflicts (what happens to the other triggers of a refused function is not stated)",
]
NAMES = ["s1", "s2", "s3", "s4"]
SUPPORTS = ["none", "optional", "only"]


def warm():
    from ..warm import warm as _w

    _w()


def generate(tier, seed, gated=frozenset()):
    i = 0
    while True:
        for legacy in (False, True):
            yield {"seed": f"C12-{tier}-{seed}-{i}", "legacy": legacy}
        i += 1


class Model:
    def __init__(self, rng):
        self.rng = rng
        self.gen = 0
        self.files = {"a.py": [], "b.py": []}  # list of funcs {fn, gen, names, sup}
        self.present = {"a.py": True, "b.py": True}
        self.owner = {}  # name -> ctx
        self.live = {}  # name -> list of (gen, sup) in registration order (owner's declarations)
        self.rejected = 0
        self.unjudged = {}
        self.dyn = None  # (gen) of the dynamic global function in a.py
        self.file_dyn = rng.random() < 0.5  # a.py also defines `dyn` at file level: the run-time redefinition replaces a file-level service
        self.dyn0 = None

    def new_func(self, f, i):
        r = self.rng
        self.gen += 1
        names = r.sample(NAMES, r.choice([1, 1, 2]))
        return {"fn": f"{f[0]}fn{i}", "gen": self.gen, "names": names, "sup": r.choice(SUPPORTS)}

    def gen_file(self, f):
        ctx = "file." + f[0]
        funcs = [self.new_func(f, i) for i in range(self.rng.randint(1, 3))]
        for fn in funcs:
            # a function one of whose names another context owns is refused as a whole; whether its *other* name
            # counts as declared is not stated, so such functions declare only the contested name
            contested = [n for n in fn["names"] if self.owner.get(n, ctx) != ctx]
            if contested and len(fn["names"]) > 1:
                if self.rng.random() < 0.5:
                    fn["names"] = contested[:1]
                else:
                    # keep both, but do not judge the free name while this file is loaded; once the file is gone or the
                    # integration unloaded it must not be registered any more (that much *is* stated)
                    fn["partial"] = True
        return funcs

    # registry semantics
    def unload_ctx(self, ctx):
        for name in [n for n, c in self.unjudged.items() if c == ctx]:
            del self.unjudged[name]
        for name in list(self.owner):
            if self.owner[name] == ctx:
                del self.owner[name]
                self.live.pop(name, None)

    def load_ctx(self, ctx, funcs, dyn_gen=None):
        if ctx == "file.a":
            self.dyn = None
            if self.file_dyn:
                self.gen += 1
                self.dyn0 = self.gen
                if self.declare(ctx, "dyn", self.dyn0, "optional"):
                    self.dyn = self.dyn0
        for fn in funcs:
            for name in fn["names"]:
                if fn.get("partial") and self.owner.get(name, ctx) == ctx:
                    self.unjudged[name] = ctx
                    continue
                self.declare(ctx, name, fn["gen"], fn["sup"])

    def declare(self, ctx, name, gen, sup):
        if name in self.owner and self.owner[name] != ctx:
            self.rejected += 1
            return False
        self.owner[name] = ctx
        self.live.setdefault(name, []).append((gen, sup))
        return True

    def render(self, f):
        lines = []
        for fn in self.files[f]:
            for name in fn["names"]:
                sup = "" if fn["sup"] == "none" else f", supports_response={fn['sup']!r}"
                lines.append(f"@service('pyscript.{name}'{sup})")
            lines.append(f"def {fn['fn']}(**kw):")
            lines.append("    x0 = kw.get('x')")
            lines.append(f"    vf.rec('svc', fn={fn['fn']!r}, gen={fn['gen']}, kw=kw)")
            lines.append("    if kw.get('slow'):")
            lines.append("        task.sleep(kw['slow'])")
            lines.append(f"        vf.rec('svc_end', fn={fn['fn']!r}, x0=x0, x_now=kw.get('x'))")
            lines.append(f"    return {{'gen': {fn['gen']}, 'x': kw.get('x')}}")
            lines.append("")
        if f == "a.py":
            if self.file_dyn:
                lines += ["@service('pyscript.dyn', supports_response='optional')", "def dyn(**kw):", "    x0 = kw.get('x')", f"    vf.rec('svc', fn='dyn', gen={self.dyn0}, kw=kw)", "    if kw.get('slow'):", "        task.sleep(kw['slow'])", "        vf.rec('svc_end', fn='dyn', x0=x0, x_now=kw.get('x'))", f"    return {{'gen': {self.dyn0}, 'x': kw.get('x')}}", ""]
            lines += DYN.split("\n")
        return "\n".join(lines) + "\n"


DYN = '''
@service
def redefine(gen=None):
    global dyn
    @service('pyscript.dyn', supports_response='optional')
    def dyn(**kw):
        x0 = kw.get('x')
        vf.rec('svc', fn='dyn', gen=gen, kw=kw)
        if kw.get('slow'):
            task.sleep(kw['slow'])
            vf.rec('svc_end', fn='dyn', x0=x0, x_now=kw.get('x'))
        return {'gen': gen, 'x': kw.get('x')}

@service
def drop_dyn():
    global dyn
    del dyn

@service
def late_import():
    # first import of a module at run time: its services exist from now on
    import svcmod
    vf.rec('late_import_done', v=svcmod.VALUE)

@service
def outgoing(a=None, b=None):
    service.call('vf', 'sink', a=a, b=b, how='call', blocking=True)
    vf.sink(a=a, b=b, how='attr', blocking=True)
    # data fields that merely share a name with a call option (wrong type for the option): delivered as data
    service.call('vf', 'sink', a=a, how='odd', context='ctx-as-data', return_response=0, blocking=True)
    r = service.call('vf', 'echo', a=a, return_response=True)
    vf.rec('echo', r=r)
'''


SHARED_SRC = '''
@service("pyscript.shared")
def a():
    vf.rec('svc', which='a')

@service("pyscript.shared")
def b():
    vf.rec('svc', which='b')

@event_trigger("c12_drop")
def drop(**kw):
    global b
    del b
'''


def run_shared_witness(case):
    """Two live functions of one file declare the same service; the later one is deleted: calls must not run it any more."""
    import gc

    from ..sim import run_world

    async def main(w):
        await w.hass.services.async_call("pyscript", "shared", {}, blocking=True)
        w.fire("c12_drop", {})
        await w.settle()
        gc.collect()
        await w.settle()
        n0 = len(w.rec)
        has = w.hass.services.has_service("pyscript", "shared")
        if has:
            await w.hass.services.async_call("pyscript", "shared", {}, blocking=True)
            await w.settle()
        return has, [r["which"] for r in w.rec[n0:] if r["tag"] == "svc"]

    w, (has, ran) = run_world(main, files={"a.py": SHARED_SRC}, legacy=case["legacy"], keep=True)
    viol = []
    if not has:
        viol.append({"mech": "declared_service_missing", "msg": "pyscript.shared is gone although function a still declares it"})
    elif ran != ["a"]:
        viol.append({"mech": "shared_service_name_runs_deleted_function", "msg": f"after `del b` a call of pyscript.shared ran {ran}; the only live declaration is a"})
    obs = {k: 0 for k in REQUIRED_OBS}
    obs["calls_made"] = 2
    return {"verdict": "violated" if viol else "held", "violations": viol, "nontrivial": True, "obs": obs, "sig": f"shared|{case['legacy']}"}


def run_case(case):
    if case.get("witness") == "shared_service_delete":
        return run_shared_witness(case)
    from ..sim import run_world

    rng = random.Random(case["seed"])
    m = Model(rng)
    legacy = case["legacy"]
    m.files["a.py"] = m.gen_file("a.py")
    m.load_ctx("file.a", m.files["a.py"])
    m.files["b.py"] = m.gen_file("b.py")
    m.load_ctx("file.b", m.files["b.py"])
    nsteps = rng.randint(4, 9)
    viol = []
    obs = {k: 0 for k in REQUIRED_OBS}
    cover = {"ops": []}
    sink = []
    universe = NAMES + ["dyn", "modsvc"]

    async def check(w, label):
        from homeassistant.core import SupportsResponse
        from homeassistant.exceptions import HomeAssistantError, ServiceNotFound

        for name in universe:
            if name in m.unjudged:
                continue
            want = name in m.live and len(m.live[name]) > 0
            got = w.hass.services.has_service("pyscript", name)
            obs["has_service_checks"] += 1
            if got != want:
                viol.append({"mech": "undeclared_service_registered" if got else "declared_service_missing", "msg": f"{label}: has_service(pyscript.{name}) = {got}, model {want} (owner {m.owner.get(name)}, live {m.live.get(name)})"})
                continue
            x = rng.randint(0, 10**6)
            start = len(w.rec)
            if not want:
                try:
                    await w.hass.services.async_call("pyscript", name, {"x": x}, blocking=True)
                    viol.append({"mech": "undeclared_service_registered", "msg": f"{label}: call of undeclared pyscript.{name} succeeded"})
                except ServiceNotFound:
                    obs["not_found_as_expected"] += 1
                continue
            gen, sup = m.live[name][-1]
            sr = w.hass.services.supports_response("pyscript", name)
            want_sr = {"none": SupportsResponse.NONE, "optional": SupportsResponse.OPTIONAL, "only": SupportsResponse.ONLY}[sup]
            if sr != want_sr:
                viol.append({"mech": "wrong_supports_response", "msg": f"{label}: pyscript.{name} supports_response {sr} expected {want_sr}"})
                continue
            resp = None
            try:
                resp = await w.hass.services.async_call("pyscript", name, {"x": x, "y": "v"}, blocking=True, return_response=(sup != "none"))
            except (HomeAssistantError, ServiceNotFound) as exc:
                viol.append({"mech": "service_call_failed", "msg": f"{label}: call pyscript.{name}: {exc!r}"})
                continue
            await w.settle()
            obs["calls_made"] += 1
            recs = [r for r in w.rec[start:] if r["tag"] == "svc"]
            if len(recs) != 1 or recs[0]["gen"] != gen:
                viol.append({"mech": "service_ran_wrong_generation", "msg": f"{label}: call pyscript.{name} should run generation {gen}; ran {[(r['fn'], r['gen']) for r in recs]} (live {m.live[name]})"})
                continue
            obs["calls_ran_expected_generation"] += 1
            kw = dict(recs[0]["kw"])
            ctx = kw.pop("context", None)
            if kw != {"trigger_type": "service", "x": x, "y": "v"} or ctx is None:
                viol.append({"mech": "service_wrong_kwargs", "msg": f"{label}: pyscript.{name} got {recs[0]['kw']}"})
            if sup != "none":
                obs["responses_checked"] += 1
                if resp != {"gen": gen, "x": x}:
                    viol.append({"mech": "service_wrong_response", "msg": f"{label}: pyscript.{name} returned {resp} expected gen {gen} x {x}"})
            if sup != "none" and not viol and rng.random() < 0.5:
                # two overlapping calls of the same service: the second starts while the first is suspended and ends before it
                xa, xb = x + 1, x + 2
                start = len(w.rec)
                # nested (B ends first) or crossing (A resumes while B is still suspended)
                sa_, sb_ = rng.choice([(2, 1), (1, 1), (1, 2)])
                ta = w.hass.async_create_task(w.hass.services.async_call("pyscript", name, {"x": xa, "slow": sa_}, blocking=True, return_response=True))
                await w.advance(0.5)
                tb = w.hass.async_create_task(w.hass.services.async_call("pyscript", name, {"x": xb, "slow": sb_}, blocking=True, return_response=True))
                await w.advance(3.0)
                await w.settle()
                ra = ta.result() if ta.done() and not ta.exception() else repr(ta.exception() if ta.done() else "not finished")
                rb = tb.result() if tb.done() and not tb.exception() else repr(tb.exception() if tb.done() else "not finished")
                ends = sorted((r["x0"], r["x_now"]) for r in w.rec[start:] if r["tag"] == "svc_end")
                obs["overlapping_call_pairs"] += 1
                if ra != {"gen": gen, "x": xa} or rb != {"gen": gen, "x": xb} or ends != [(xa, xa), (xb, xb)]:
                    viol.append({"mech": "overlapping_calls_mixed_up", "msg": f"{label}: overlapping calls of pyscript.{name} with x={xa} and x={xb}: responses {ra} / {rb}, (x at start, x at end) per run {ends}"})

    async def main(w):
        from homeassistant.core import SupportsResponse

        async def _sink(call):
            sink.append(dict(call.data))

        async def _echo(call):
            return {"echo": call.data.get("a")}

        w.hass.services.async_register("vf", "sink", _sink)
        w.hass.services.async_register("vf", "echo", _echo, supports_response=SupportsResponse.ONLY)
        await w.quiesce()
        await check(w, "initial load")
        for si in range(nsteps):
            k = rng.random()
            obs["steps"] += 1
            if k < 0.3:
                f = rng.choice(["a.py", "b.py"])
                op = f"rewrite {f}"
                ctx = "file." + f[0]
                if m.present[f]:
                    m.unload_ctx(ctx)
                    obs["redefinitions"] += 1
                m.files[f] = m.gen_file(f)
                m.present[f] = True
                m.load_ctx(ctx, m.files[f])
                w.write(f, m.render(f))
                await w.reload()
            elif k < 0.4:
                f = rng.choice(["a.py", "b.py"])
                op = f"delete {f}"
                if m.present[f]:
                    m.unload_ctx("file." + f[0])
                    m.present[f] = False
                    obs["redefinitions"] += 1
                    if f == "a.py":
                        m.dyn = None
                    w.remove(f)
                await w.reload()
            elif k < 0.47:
                op = "reload"
                await w.reload()
            elif k < 0.75:
                op = "redefine dyn"
                if not m.present["a.py"]:
                    continue
                m.gen += 1
                ok = m.owner.get("dyn", "file.a") == "file.a"
                # the new definition registers before the old one is released
                m.declare("file.a", "dyn", m.gen, "optional")
                if m.dyn is not None:
                    m.live["dyn"] = [d for d in m.live["dyn"] if d[0] != m.dyn]
                m.dyn = m.gen
                obs["redefinitions"] += 1
                await w.hass.services.async_call("pyscript", "redefine", {"gen": m.gen}, blocking=True)
            elif k < 0.85:
                op = "drop dyn"
                if not m.present["a.py"] or m.dyn is None:
                    continue
                m.live["dyn"] = [d for d in m.live.get("dyn", []) if d[0] != m.dyn]
                if not m.live["dyn"]:
                    m.live.pop("dyn")
                    m.owner.pop("dyn", None)
                m.dyn = None
                obs["redefinitions"] += 1
                await w.hass.services.async_call("pyscript", "drop_dyn", {}, blocking=True)
            elif k < 0.90:
                op = "late import"
                if not m.present["a.py"]:
                    continue
                # a module that declares a service is imported for the first time by a running function
                if "modsvc" not in m.live:
                    m.owner["modsvc"] = "modules.svcmod"
                    m.live["modsvc"] = [(777, "optional")]
                obs["late_imports"] += 1
                await w.hass.services.async_call("pyscript", "late_import", {}, blocking=True)
                await w.settle()
            else:
                op = "outgoing"
                if not m.present["a.py"]:
                    continue
                a, b = rng.randint(0, 99), rng.choice(["p", "q", None, [1, 2], {"k": 1}])
                n0 = len(sink)
                start = len(w.rec)
                await w.hass.services.async_call("pyscript", "outgoing", {"a": a, "b": b}, blocking=True)
                await w.settle()
                got = sink[n0:]
                obs["outgoing_calls_checked"] += 3
                want = [{"a": a, "b": b, "how": "call"}, {"a": a, "b": b, "how": "attr"}, {"a": a, "how": "odd", "context": "ctx-as-data", "return_response": 0}]
                if got != want:
                    viol.append({"mech": "outgoing_call_wrong_data", "msg": f"service.call delivered {got} expected {want}"})
                ech = [r for r in w.rec[start:] if r["tag"] == "echo"]
                if not ech or ech[0]["r"] != {"echo": a}:
                    viol.append({"mech": "outgoing_call_wrong_response", "msg": f"return_response gave {ech}"})
            cover["ops"].append(op.split()[0] + ("" if " " not in op else ":" + op.split()[1][:3]))
            await w.quiesce()
            await check(w, f"step {si} ({op})")
        # unload: nothing of ours may stay registered
        for f in ("a.py", "b.py"):
            if m.present[f]:
                m.unload_ctx("file." + f[0])
        m.live.clear()
        m.owner.clear()
        await w.unload()
        await w.quiesce()
        for name in universe + ["redefine", "drop_dyn", "outgoing", "late_import"]:
            if w.hass.services.has_service("pyscript", name):
                viol.append({"mech": "undeclared_service_registered", "msg": f"after unload pyscript.{name} is still registered"})

    svcmod = "VALUE = 5\n\n@service('pyscript.modsvc', supports_response='optional')\ndef modsvc(**kw):\n    x0 = kw.get('x')\n    vf.rec('svc', fn='modsvc', gen=777, kw=kw)\n    if kw.get('slow'):\n        task.sleep(kw['slow'])\n        vf.rec('svc_end', fn='modsvc', x0=x0, x_now=kw.get('x'))\n    return {'gen': 777, 'x': kw.get('x')}\n"
    w, _ = run_world(main, files={"a.py": m.render("a.py"), "b.py": m.render("b.py"), "modules/svcmod.py": svcmod}, legacy=legacy, tick=rng.choice([1e-6, 5e-6, 5e-5]), keep=True)
    obs["rejected_declarations"] = m.rejected
    errs = [r for r in w.logs(level="ERROR") if "can't register service" not in r["msg"] and "already defined in" not in r["msg"]]
    if errs:
        viol.append({"mech": "unexpected_error_log", "msg": str(errs[:2])[:1200]})
    if m.rejected and not [r for r in w.logs(level="ERROR") if "already defined in" in r["msg"] or "can't register service" in r["msg"]]:
        viol.append({"mech": "refused_declaration_not_reported", "msg": f"{m.rejected} declarations should have been refused"})
    esc = [e for e in w.escapes]
    if esc:
        viol.append({"mech": "escaped_exception", "msg": str(esc[:2])[:1200]})
    seen, uniq = set(), []
    for v in viol:
        if v["mech"] not in seen:
            seen.add(v["mech"])
            uniq.append(v)
    return {
        "verdict": "violated" if uniq else "held",
        "violations": uniq,
        "nontrivial": obs["redefinitions"] > 0 and obs["calls_made"] > 0,
        "obs": dict(obs, legacy_cases=int(legacy), default_cases=int(not legacy)),
        "cover": cover,
        "sig": "|".join(cover["ops"]) + f"|{legacy}",
    }


def sample(case, res):
    rng = random.Random(case["seed"])
    m = Model(rng)
    for f in ("a.py", "b.py"):
        m.files[f] = m.gen_file(f)
    return {"legacy": case["legacy"], "a.py": m.render("a.py")[:1200], "b.py": m.render("b.py")[:600]}
