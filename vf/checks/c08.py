"""C08 — event / MQTT / webhook triggers deliver each message exactly once; event.fire; context parents."""

from __future__ import annotations

import asyncio
import json
import random

ID = "C08"
LEVEL = "exploration"
BUDGET = {"quick": 50, "thorough": 900}
QUICK_CASES = 2400  # generator items in the quick tier (fixed amount of work; BUDGET is then only a safety cap)
FLOOR = {"quick": 800, "thorough": 800}  # conclusive cases below which a run is inconclusive (the thorough tier is time-budgeted: same floor)
TIMEOUT = 90
REQUIRED_OBS = ["runs_observed", "msgs_sent", "pairs_matching", "pairs_not_matching", "emitted_checked", "mqtt_runs", "webhook_runs", "state_hold_cases"]
RULE = (
    "random scripts (1-4 functions with 1-3 @event_trigger each over shared/distinct event types, optional structured filter "
    "expressions over payload keys, kwargs=; optional @mqtt_trigger with +/# wildcards and payload_obj filters; optional "
    "@webhook_trigger) x random message sequences (10-120 messages each with a unique uid and its own HA Context; back-to-back, "
    "k yields apart, or while earlier runs still sleep 5 s) under both subsystems. Monitors: exactly-once multiset per decorator, "
    "per-function order, own task per run, start latency <= 10 ms virtual, event.fire payload equality, context.parent_id of "
    "every event/state change/service call a run makes. Non-trivial: >= 10 messages incl. a burst and an overlapping sleeping run."
)
ASSUMPTIONS = [
    "payload keys never equal reserved names (trigger_type, event_type, context)",
    "webhook ids are unique per decorator (HA allows one handler per id)",
    "MQTT goes through an in-harness broker patched at homeassistant.components.mqtt.async_subscribe; webhooks through HA's real "
    "webhook component with MockRequest bodies",
    "a filter that references a missing payload key expects no run and >= 1 logged error",
]
ETYPES = ["ev_a", "ev_b", "ev_c"]
TOPICS = ["t/a", "t/b", "t/a/x", "u/z"]
SUBS = ["t/a", "t/+", "t/#", "u/z", "t/a/x"]
HOOKS = ["hook_a", "hook_b", "hook_c", "hook_d"]


def warm():
    from ..warm import warm as _w

    _w()


# ---- filters ----------------------------------------------------------------------------------
def gen_filter(rng, depth=1, prefix=""):
    if depth <= 0 or rng.random() < 0.5:
        k = rng.choice(["x", "y", "uid", "bare"])
        if k == "bare":
            # a filter that is merely truthy or falsy (0, 1, 2, 3 / uid % n), not True or False
            return rng.choice([["val", prefix + "x"], ["modval", prefix + "uid", rng.choice([2, 3])]])
        if k == "x":
            return ["cmp", prefix + "x", rng.choice(["==", "!=", ">", "<"]), rng.randint(0, 3)]
        if k == "y":
            return ["cmp", prefix + "y", rng.choice(["==", "!="]), rng.choice(["a", "b", "c"])]
        return ["mod", prefix + "uid", rng.choice([2, 3]), rng.randint(0, 1)]
    op = rng.choice(["and", "or", "not"])
    if op == "not":
        return ["not", gen_filter(rng, depth - 1, prefix)]
    return [op, gen_filter(rng, depth - 1, prefix), gen_filter(rng, depth - 1, prefix)]


def render_filter(f, wrap=None):
    def key(k):
        return k if wrap is None else f"{wrap}[{k!r}]"

    op = f[0]
    if op == "cmp":
        return f"{key(f[1])} {f[2]} {f[3]!r}"
    if op == "mod":
        return f"{key(f[1])} % {f[2]} == {f[3]}"
    if op == "val":
        return f"{key(f[1])}"
    if op == "modval":
        return f"({key(f[1])} % {f[2]})"
    if op == "not":
        return f"(not {render_filter(f[1], wrap)})"
    return f"({render_filter(f[1], wrap)} {op} {render_filter(f[2], wrap)})"


class Missing(Exception):
    pass


def eval_filter(f, data):
    op = f[0]
    if op in ("cmp", "mod", "val", "modval"):
        if f[1] not in data:
            raise Missing(f[1])
        v = data[f[1]]
        if op == "val":
            return v
        if op == "modval":
            return v % f[2]
        if op == "mod":
            return v % f[2] == f[3]
        return {"==": v == f[3], "!=": v != f[3], ">": v > f[3] if not isinstance(v, str) else False, "<": v < f[3] if not isinstance(v, str) else False}[f[2]]
    if op == "not":
        return not eval_filter(f[1], data)
    if op == "and":
        return eval_filter(f[1], data) and eval_filter(f[2], data)
    return eval_filter(f[1], data) or eval_filter(f[2], data)


# ---- generation -------------------------------------------------------------------------------
def generate(tier, seed):
    rng = random.Random(f"C08-{tier}-{seed}")
    n = 0
    while True:
        funcs = []
        di = 0
        hooks = list(HOOKS)
        use_mqtt = rng.random() < 0.4
        use_hook = rng.random() < 0.35
        for fi in range(rng.choice([1, 2, 2, 3, 4])):
            decs = []
            for _ in range(rng.choice([1, 1, 2, 3])):
                k = rng.random()
                if use_mqtt and k < 0.25:
                    d = {"kind": "mqtt", "topic": rng.choice(SUBS), "filt": gen_filter(rng, 1) if rng.random() < 0.4 else None}
                elif use_hook and k < 0.45 and hooks:
                    d = {"kind": "webhook", "hook": hooks.pop(), "filt": gen_filter(rng, 1) if rng.random() < 0.3 else None}
                else:
                    d = {"kind": "event", "etype": rng.choice(ETYPES), "filt": gen_filter(rng, rng.choice([0, 1, 2])) if rng.random() < 0.55 else None}
                d["kw"] = {"dec": di}
                if rng.random() < 0.2:
                    d["kw"]["extra"] = rng.randint(0, 9)
                di += 1
                decs.append(d)
            funcs.append({"name": f"f{fi}", "decs": decs, "sleep": rng.random() < 0.45, "emit": rng.random() < 0.5})
        msgs = []
        mode = rng.choice(["burst", "yields", "sleepy", "mixed"])
        nm = rng.randint(10, 120 if tier == "thorough" else 60)
        for uid in range(nm):
            k = rng.random()
            data = {"uid": uid, "x": rng.randint(0, 3), "y": rng.choice(["a", "b", "c"])}
            if rng.random() < 0.04:
                del data[rng.choice(["x", "y"])]
            if use_mqtt and k < 0.25:
                if rng.random() < 0.15:
                    m = {"kind": "mqtt", "topic": rng.choice(TOPICS), "payload": f"plain-{uid}", "uid": uid}
                else:
                    m = {"kind": "mqtt", "topic": rng.choice(TOPICS), "payload": json.dumps(data), "uid": uid}
                m["qos"] = rng.choice([0, 1])
                m["retain"] = rng.random() < 0.2
            elif use_hook and k < 0.45:
                m = {"kind": "webhook", "hook": rng.choice(HOOKS), "data": data, "form": rng.random() < 0.4, "uid": uid}
            else:
                m = {"kind": "event", "etype": rng.choice(ETYPES + ["ev_other"]), "data": data, "uid": uid}
            if mode == "burst":
                gap = 0 if rng.random() < 0.85 else "settle"
            elif mode == "yields":
                gap = rng.randint(1, 5)
            elif mode == "sleepy":
                gap = rng.choice([0, 0, "t1", "t3", "settle"])
            else:
                gap = rng.choice([0, 0, 1, 3, "settle", "t1"])
            m["gap"] = gap
            msgs.append(m)
        hold = None
        if rng.random() < 0.3 and len(msgs) > 6:
            # one function also carries @state_trigger(..., state_hold=H): messages that arrive while the hold is pending are still
            # delivered exactly once, and the held state trigger runs exactly once, when the hold expires
            fi = rng.randrange(len(funcs))
            funcs[fi]["emit"] = False
            funcs[fi]["sleep"] = False
            hold = {"fn": funcs[fi]["name"], "after": rng.randrange(1, len(msgs) - 3), "H": 30.5}
            funcs[fi]["hold"] = hold["H"]
        base = {"funcs": funcs, "msgs": msgs, "tick": rng.choice([1e-6, 5e-6, 5e-5, 5e-4]), "mqtt": use_mqtt, "hook": use_hook, "hold": hold}
        for legacy in (False, True):
            c = dict(base)
            c["legacy"] = legacy
            c["n"] = n
            yield c
        n += 1


def render_script(case):
    lines = []
    for f in case["funcs"]:
        for d in f["decs"]:
            if d["kind"] == "event":
                args = [repr(d["etype"])] + ([repr(render_filter(d["filt"]))] if d["filt"] else [])
                lines.append(f"@event_trigger({', '.join(args)}, kwargs={d['kw']!r})")
            elif d["kind"] == "mqtt":
                args = [repr(d["topic"])] + ([repr(render_filter(d["filt"], "payload_obj"))] if d["filt"] else [])
                lines.append(f"@mqtt_trigger({', '.join(args)}, kwargs={d['kw']!r})")
            else:
                args = [repr(d["hook"])] + ([repr(render_filter(d["filt"], "payload"))] if d["filt"] else [])
                lines.append(f"@webhook_trigger({', '.join(args)}, kwargs={d['kw']!r})")
        if f.get("hold"):
            lines.append(f"@state_trigger(\"pyscript.c8h == '1'\", state_hold={f['hold']}, kwargs={{'dec': 'hold'}})")
        lines.append(f"def {f['name']}(**kw):")
        lines.append(f"    vf.rec('run', fn={f['name']!r}, kw=kw)")
        lines.append("    uid = vf.uid(kw)")
        if f["emit"]:
            lines.append(f"    event.fire('out', src=uid, fn={f['name']!r}, payload=[uid, 'x'])")
            # parameters that merely look special: a 'context' that is not a Context, None / falsy values, nested data
            lines.append(f"    event.fire('out3', src=uid, fn={f['name']!r}, context='just-data', none=None, zero=0, nested={{'k': [1, {{'z': None}}]}})")
            lines.append(f"    pyscript.out_{f['name']} = str(uid)")
            lines.append(f"    service.call('vf', 'sink', src=uid, fn={f['name']!r})")
        if f["sleep"]:
            lines.append("    task.sleep(5)")
            lines.append(f"    vf.rec('end', fn={f['name']!r}, uid=uid, kw_uid=vf.uid(kw))")
            if f["emit"]:
                lines.append(f"    event.fire('out2', src=uid, fn={f['name']!r})")
        lines.append("")
    return "\n".join(lines)


def _uid_of(kw):
    if "uid" in kw:
        return kw["uid"]
    p = kw.get("payload_obj")
    if isinstance(p, dict) and "uid" in p:
        return p["uid"]
    p = kw.get("payload")
    if isinstance(p, dict) and "uid" in p:
        return int(p["uid"])
    if isinstance(p, str) and p.startswith("plain-"):
        return int(p[6:])
    return -1


def model(case):
    from ..fakes import topic_matches

    expected = {}
    errors_expected = 0
    pm = pnm = 0
    for f in case["funcs"]:
        for d in f["decs"]:
            runs = []
            for m in case["msgs"]:
                if m["kind"] != d["kind"]:
                    pnm += 1
                    continue
                kw = None
                if d["kind"] == "event":
                    if m["etype"] != d["etype"]:
                        pnm += 1
                        continue
                    data = m["data"]
                    kw = {"trigger_type": "event", "event_type": m["etype"], "context": f"c{m['uid']}", **data}
                elif d["kind"] == "mqtt":
                    if not topic_matches(d["topic"], m["topic"]):
                        pnm += 1
                        continue
                    kw = {"trigger_type": "mqtt", "topic": m["topic"], "payload": m["payload"], "qos": m["qos"], "retain": m["retain"]}
                    data = None
                    try:
                        kw["payload_obj"] = data = json.loads(m["payload"])
                    except ValueError:
                        pass
                else:
                    if m["hook"] != d["hook"]:
                        pnm += 1
                        continue
                    data = m["data"] if not m["form"] else {k: str(v) for k, v in m["data"].items()}
                    kw = {"trigger_type": "webhook", "webhook_id": m["hook"], "payload": data}
                ok = True
                if d["filt"]:
                    try:
                        if data is None:
                            raise Missing("payload_obj")
                        fd = data
                        if d["kind"] == "webhook" and m["form"]:
                            # form values are strings: numeric comparisons on them are a type mix the oracle does not judge
                            ok = None
                        else:
                            ok = eval_filter(d["filt"], fd)
                    except Missing:
                        ok = False
                        errors_expected += 1
                if ok is None:
                    runs.append({"uid": m["uid"], "skip": True})
                    errors_expected = -10**9  # string-vs-int comparisons may or may not raise: errors not judged
                    continue
                if ok:
                    pm += 1
                    kw.update(d["kw"])
                    runs.append({"uid": m["uid"], "kw": kw})
                else:
                    pnm += 1
            expected[d["kw"]["dec"]] = {"fn": f["name"], "runs": runs}
    return expected, errors_expected, pm, pnm


def run_case(case):
    from ..sim import run_world, sanitize

    expected, errors_expected, pm, pnm = model(case)
    script = render_script(case)
    sink = []
    sent_at = {}
    hold_info = {}

    async def main(w):
        from homeassistant.core import Context
        from homeassistant.components import webhook
        from homeassistant.util.aiohttp import MockRequest

        async def _sink(call):
            sink.append({"src": call.data.get("src"), "fn": call.data.get("fn"), "ctx": call.context.id, "parent": call.context.parent_id})

        w.hass.services.async_register("vf", "sink", _sink)
        await w.settle()
        hold = case.get("hold")
        for mi, m in enumerate(case["msgs"]):
            if hold and mi == hold["after"]:
                w.hass.states.async_set("pyscript.c8h", "1", context=Context(id="chold"))
                hold_info["t"] = w.clock.off
            w._rec("issue", uid=m["uid"])
            sent_at[m["uid"]] = w.clock.off
            if m["kind"] == "event":
                w.hass.bus.async_fire(m["etype"], dict(m["data"]), context=Context(id=f"c{m['uid']}"))
            elif m["kind"] == "mqtt":
                w.broker.publish(m["topic"], m["payload"], m["qos"], m["retain"])
            else:
                if m["form"]:
                    from urllib.parse import urlencode

                    body = urlencode(m["data"]).encode()
                    hdr = {"Content-Type": "application/x-www-form-urlencoded"}
                else:
                    body = json.dumps(m["data"]).encode()
                    hdr = {"Content-Type": "application/json"}
                req = MockRequest(content=body, mock_source="vf", method="POST", headers=hdr)
                # HA hands webhook requests to the handler from its own task; do the same
                w.hass.async_create_task(webhook.async_handle_webhook(w.hass, m["hook"], req))
            g = m["gap"]
            if g == "settle":
                await w.settle()
            elif g == "t1":
                await w.advance(1.0)
            elif g == "t3":
                await w.advance(3.0)
            else:
                for _ in range(g):
                    await asyncio.sleep(0)
        await w.settle()
        await w.advance(12.0)
        if hold:
            await w.advance(hold["H"] + 5)

    def pre(w):
        w.hass.states.async_set("pyscript.c8h", "0")

    extra = {
        "vf.uid": lambda kw: _uid_of(sanitize(kw)),
    }
    w, _ = run_world(
        main,
        files={"c08.py": script},
        legacy=case["legacy"],
        tick=case["tick"],
        mqtt=case["mqtt"],
        webhook=case["hook"],
        extra_functions=extra,
        pre_setup=pre,
        keep=True,
    )
    viol = []
    runs = [r for r in w.rec if r["tag"] == "run"]
    hold_runs = [r for r in runs if r["kw"].get("dec") == "hold"]
    runs = [r for r in runs if r["kw"].get("dec") != "hold"]
    if case.get("hold"):
        H = case["hold"]["H"]
        ok = len(hold_runs) == 1 and hold_runs[0]["fn"] == case["hold"]["fn"] and hold_runs[0]["kw"].get("trigger_type") == "state" and (hold_runs[0]["kw"].get("value") or {}).get("s") == "1" and abs(hold_runs[0]["t"] - (hold_info["t"] + H)) <= 0.02
        if not ok:
            viol.append({"mech": "held_state_trigger_disturbed_by_messages", "msg": f"state_hold={H} started at {hold_info.get('t')}: runs {[(r['t'], r['fn'], r['kw'].get('trigger_type'), r['kw'].get('value')) for r in hold_runs]}"})
    by_dec = {}
    for r in runs:
        by_dec.setdefault(r["kw"].get("dec"), []).append(r)
    n_checked = 0
    for dec, exp in expected.items():
        got = by_dec.pop(dec, [])
        skip = {r["uid"] for r in exp["runs"] if r.get("skip")}
        exp_runs = [r for r in exp["runs"] if not r.get("skip")]
        got = [r for r in got if _uid_of(r["kw"]) not in skip]
        g_uids = [_uid_of(r["kw"]) for r in got]
        e_uids = [r["uid"] for r in exp_runs]
        if any(r["fn"] != exp["fn"] for r in got):
            viol.append({"mech": "run_wrong_function", "msg": f"dec {dec}"})
        if g_uids != e_uids:
            miss = [u for u in e_uids if u not in g_uids]
            unex = [u for u in g_uids if u not in e_uids]
            if miss:
                mech = "message_lost"
            elif len(g_uids) != len(set(g_uids)):
                mech = "message_duplicated"
            elif unex:
                mech = "run_for_non_matching_message"
            else:
                mech = "messages_reordered"
            viol.append({"mech": mech, "msg": f"dec {dec} fn {exp['fn']}: missing={miss[:6]} unexpected={unex[:6]} exp={e_uids[:15]} got={g_uids[:15]}"})
            continue
        for r, e in zip(got, exp_runs):
            n_checked += 1
            gk = {k: v for k, v in r["kw"].items()}
            ek = e["kw"]
            if gk != ek:
                viol.append({"mech": "run_wrong_kwargs", "msg": f"dec {dec} uid {e['uid']}: expected {ek} got {gk}"})
                break
            lat = r["t"] - sent_at[e["uid"]]
            if lat > 0.010 + 1e-9 or lat < -1e-9:
                viol.append({"mech": "run_start_delayed", "msg": f"dec {dec} uid {e['uid']}: started {lat:.6f}s after the message"})
                break
    if by_dec:
        viol.append({"mech": "run_unknown_decorator", "msg": str(list(by_dec))})
    # per function order
    for f in case["funcs"]:
        per_dec_kind = {}
        for r in runs:
            if r["fn"] == f["name"]:
                per_dec_kind.setdefault(r["kw"].get("dec"), []).append(_uid_of(r["kw"]))
        for dec, seq in per_dec_kind.items():
            if seq != sorted(seq):
                viol.append({"mech": "messages_reordered", "msg": f"fn {f['name']} dec {dec} started out of order: {seq[:20]}"})
    serials = [r["task"] for r in runs]
    if len(serials) != len(set(serials)):
        viol.append({"mech": "runs_share_task", "msg": "two runs recorded in the same task"})
    # everything a run emits: payload and context parent
    emit_fns = {f["name"] for f in case["funcs"] if f["emit"]}
    run_ctx = {}  # (fn, uid) -> expected parent ctx id (None for mqtt/webhook: fresh context without parent)
    for r in runs:
        u = _uid_of(r["kw"])
        run_ctx[(r["fn"], u)] = f"c{u}" if r["kw"].get("trigger_type") == "event" else None
    emitted_checked = 0
    outs = [b for b in w.bus if b["type"] == "out"]
    n_emit_runs = sum(1 for r in runs if r["fn"] in emit_fns)
    if len(outs) != n_emit_runs:
        viol.append({"mech": "event_fire_count", "msg": f"{n_emit_runs} runs fired 'out' but {len(outs)} events seen"})
    for b in outs:
        d = b["data"]
        emitted_checked += 1
        if set(d) != {"src", "fn", "payload"} or d.get("payload") != [d.get("src"), "x"]:
            viol.append({"mech": "event_fire_payload", "msg": f"out event data {d}"})
            break
        want = run_ctx.get((d["fn"], d["src"]), "?")
        if want == "?" or b["parent"] != want:
            viol.append({"mech": "context_parent_event", "msg": f"out event of {d['fn']} uid {d['src']}: parent {b['parent']} expected {want}"})
            break
    for b in w.bus:
        if b["type"] == "state_changed" and b["data"]["entity_id"].startswith("pyscript.out_"):
            fn = b["data"]["entity_id"][len("pyscript.out_") :]
            ns = b["data"].get("new_state")
            if ns is None:
                continue
            u = int(ns.state)
            emitted_checked += 1
            want = run_ctx.get((fn, u), "?")
            if want == "?" or b["parent"] != want:
                viol.append({"mech": "context_parent_state", "msg": f"state set by {fn} uid {u}: parent {b['parent']} expected {want}"})
                break
    for s in sink:
        if s.get("late"):
            continue
        emitted_checked += 1
        want = run_ctx.get((s["fn"], s["src"]), "?")
        if want == "?" or s["parent"] != want:
            viol.append({"mech": "context_parent_service", "msg": f"service call by {s['fn']} uid {s['src']}: parent {s['parent']} expected {want}"})
            break
    n_sink = sum(1 for s in sink if not s.get("late"))
    if n_sink != n_emit_runs:
        viol.append({"mech": "service_call_count", "msg": f"{n_emit_runs} runs called vf.sink, {n_sink} calls seen"})
    # sleeping runs must all finish (independent tasks)
    ends = [r for r in w.rec if r["tag"] == "end"]
    n_sleepy = sum(1 for r in runs if any(f["name"] == r["fn"] and f["sleep"] for f in case["funcs"]))
    if len(ends) != n_sleepy:
        viol.append({"mech": "sleeping_run_lost", "msg": f"{n_sleepy} sleeping runs started, {len(ends)} finished"})
    # a run that was suspended must resume with its *own* arguments and locals, in its own task
    run_by_task = {r["task"]: r for r in runs}
    for e in ends:
        r = run_by_task.get(e["task"])
        if r is None or r["fn"] != e["fn"] or _uid_of(r["kw"]) != e["uid"] or e["kw_uid"] != e["uid"]:
            viol.append(
                {
                    "mech": "run_state_mixed_after_suspension",
                    "msg": f"end record {e} does not match the run of its task {r and (r['fn'], _uid_of(r['kw']))}",
                }
            )
            break
    outs3 = [b for b in w.bus if b["type"] == "out3"]
    if len(outs3) != n_emit_runs and not viol:
        viol.append({"mech": "event_fire_count", "msg": f"{n_emit_runs} runs fired 'out3' but {len(outs3)} events seen"})
    for b in outs3:
        d = b["data"]
        emitted_checked += 1
        exp = {"src": d.get("src"), "fn": d.get("fn"), "context": "just-data", "none": None, "zero": 0, "nested": {"k": [1, {"z": None}]}}
        if d != exp:
            viol.append({"mech": "event_fire_payload", "msg": f"out3 event data {d}, given parameters {exp}"})
            break
        want = run_ctx.get((d.get("fn"), d.get("src")), "?")
        if want == "?" or b["parent"] != want:
            viol.append({"mech": "context_parent_event", "msg": f"out3 event of {d.get('fn')} uid {d.get('src')}: parent {b['parent']} expected {want}"})
            break
    outs2 = [b for b in w.bus if b["type"] == "out2"]
    n_emit_sleepy = sum(1 for r in runs if any(f["name"] == r["fn"] and f["sleep"] and f["emit"] for f in case["funcs"]))
    if len(outs2) != n_emit_sleepy:
        viol.append({"mech": "event_fire_count", "msg": f"{n_emit_sleepy} runs fired 'out2' after sleeping but {len(outs2)} seen"})
    for b in outs2:
        d = b["data"]
        emitted_checked += 1
        want = run_ctx.get((d.get("fn"), d.get("src")), "?")
        if want == "?" or b["parent"] != want:
            viol.append({"mech": "context_parent_event", "msg": f"out2 (after sleep) of {d.get('fn')} uid {d.get('src')}: parent {b['parent']} expected {want}"})
            break
    errs = w.logs(level="ERROR")
    if errors_expected < 0:
        errors_expected = -1
    elif errors_expected == 0 and errs:
        viol.append({"mech": "unexpected_error_log", "msg": str(errs[:2])[:1500]})
    if errors_expected > 0 and not errs:
        viol.append({"mech": "filter_error_not_logged", "msg": f"{errors_expected} filter evaluations should have failed"})
    if w.escapes:
        viol.append({"mech": "escaped_exception", "msg": str(w.escapes[:3])})
    sig = "".join("S" if r["tag"] == "issue" else ("R" if r["tag"] == "run" else "E") for r in w.rec if r["tag"] in ("issue", "run", "end"))
    has_burst = any(m["gap"] == 0 for m in case["msgs"])
    overlap = n_sleepy > 0
    kinds = [d["kind"] + (":filter" if d["filt"] else "") for f in case["funcs"] for d in f["decs"]]
    return {
        "verdict": "violated" if viol else "held",
        "violations": viol,
        "nontrivial": len(case["msgs"]) >= 10 and has_burst and overlap and pm > 0,
        "obs": {
            "state_hold_cases": int(bool(case.get("hold"))),
            "runs_observed": len(runs),
            "msgs_sent": len(case["msgs"]),
            "pairs_matching": pm,
            "pairs_not_matching": pnm,
            "kwargs_compared": n_checked,
            "emitted_checked": emitted_checked,
            "mqtt_runs": sum(1 for r in runs if r["kw"].get("trigger_type") == "mqtt"),
            "webhook_runs": sum(1 for r in runs if r["kw"].get("trigger_type") == "webhook"),
            "filter_errors_expected": max(errors_expected, 0),
            "legacy_cases": int(case["legacy"]),
            "default_cases": int(not case["legacy"]),
        },
        "sig": sig[:400],
        "cover": {"decorator_kinds": kinds, "gaps": [str(m["gap"]) for m in case["msgs"]]},
    }


def sample(case, res):
    return {"script": render_script(case), "legacy": case["legacy"], "msgs": case["msgs"][:6], "obs": res.get("obs")}
