"""C13 — task.unique guarantees at most one live owner per name."""

from __future__ import annotations

import asyncio
import itertools
import random

ID = "C13"
LEVEL = "exploration"
BUDGET = {"quick": 55, "thorough": 900}
QUICK_CASES = 3000  # generator items in the quick tier (fixed amount of work; BUDGET is then only a safety cap)
FLOOR = {"quick": 800, "thorough": 800}  # conclusive cases below which a run is inconclusive (the thorough tier is time-budgeted: same floor)
TIMEOUT = 90
REQUIRED_OBS = ["schedules", "unique_calls", "takeovers", "kill_me_suicides", "snapshots_checked", "tasks_finished", "tasks_killed", "decorator_form_runs"]
RULE = (
    "schedules of up to 5 tasks (service runs in two script files = two global contexts, plus @task_unique-decorated event triggers with "
    "kill_me False/True) each interpreting an op list unique(name, kill_me) / sleep / mark / raise / finish over <= 3 names, started at "
    "chosen virtual instants incl. the same loop iteration; small schedules (<= 3 tasks x <= 2 ops x start offsets {0,0,1} x kill_me) are "
    "enumerated exhaustively, longer ones random. Oracle: sequential ownership model replayed over the *observed* order of task.unique "
    "calls; checked at quiescent points: task.name2id() names exactly the live latest claimant of every name, displaced owners make no "
    "further progress (bounded: nothing later than 1 virtual second after the takeover), kill_me callers never continue past the call when a "
    "live owner exists and otherwise do, names are released when their owner ends (finish, raise, kill), contexts never interact, all "
    "tables empty at the end. Non-trivial: >= 2 tasks contend for a name."
)
ASSUMPTIONS = [
    "'has been cancelled' is judged at the next quiescent point / within 1 virtual second (the reaper is asynchronous by design)",
    "the total order of task.unique calls is the recorder's sequence (single-threaded event loop)",
]
NAMES = ["n1", "n2", "n3"]
LOCKER = '''
def claim(wid, name, km):
    # task.unique called by a function of this module: the name belongs to the module's context, whoever runs it
    vf.rec("uq", wid=wid, name="m:" + name, km=km)
    task.unique(name, kill_me=km)
    vf.rec("claimed", wid=wid, name="m:" + name)

def snap(label):
    vf.rec("snap", ctx="m", label=label, names=vf.names(task.name2id()))
'''
SCRIPT = '''
import locker

@service
def snap_m_{c}(label=None):
    locker.snap(label)

@service
def worker_{c}(wid=None, ops=None):
    vf.rec("start", wid=wid)
    for op in ops:
        if op[0] == "unique":
            vf.rec("uq", wid=wid, name="{c}:" + op[1], km=op[2])
            task.unique(op[1], kill_me=op[2])
            vf.rec("claimed", wid=wid, name="{c}:" + op[1])
        elif op[0] == "unique_mod":
            locker.claim(wid, op[1], op[2])
        elif op[0] == "sleep":
            task.sleep(op[1])
        elif op[0] == "mark":
            vf.rec("mark", wid=wid, id=op[1])
        elif op[0] == "raise":
            vf.rec("raising", wid=wid)
            raise ValueError("boom")
    vf.rec("finish", wid=wid)

@service
def snap_{c}(label=None):
    vf.rec("snap", ctx="{c}", label=label, names=vf.names(task.name2id()))

@event_trigger("go_{c}_plain")
@task_unique("n1")
def trig_plain_{c}(wid=None, dur=None, **kw):
    vf.rec("start", wid=wid)
    vf.rec("claimed", wid=wid, name="{c}:n1")
    task.sleep(dur)
    vf.rec("mark", wid=wid, id=1)
    vf.rec("finish", wid=wid)

@event_trigger("go_{c}_pair")
@task_unique("n1")
def trig_pair1_{c}(wid=None, dur=None, **kw):
    vf.rec("start", wid=wid)
    vf.rec("claimed", wid=wid, name="{c}:n1")
    task.sleep(dur)
    vf.rec("mark", wid=wid, id=1)
    vf.rec("finish", wid=wid)

@event_trigger("go_{c}_pair")
@task_unique("n1")
def trig_pair2_{c}(wid2=None, dur=None, **kw):
    # a second function on the same event: both claim the name in the same instant
    vf.rec("start", wid=wid2)
    vf.rec("claimed", wid=wid2, name="{c}:n1")
    task.sleep(dur)
    vf.rec("mark", wid=wid2, id=1)
    vf.rec("finish", wid=wid2)

@event_trigger("go_{c}_km")
@task_unique("n1", kill_me=True)
def trig_km_{c}(wid=None, dur=None, **kw):
    vf.rec("start", wid=wid)
    vf.rec("claimed", wid=wid, name="{c}:n1")
    task.sleep(dur)
    vf.rec("mark", wid=wid, id=1)
    vf.rec("finish", wid=wid)
'''


def warm():
    from ..warm import warm as _w

    _w()


def enum_small():
    """<= 3 tasks x <= 2 ops (a unique on n1 (+kill_me) optionally followed/preceded by a sleep) x start offsets from {0, 0, 1}."""
    shapes = []
    for km in (False, True):
        shapes.append([["unique", "n1", km], ["sleep", 3]])
        shapes.append([["sleep", 0.5], ["unique", "n1", km], ["sleep", 3]])
    shapes.append([["unique", "n2", False], ["sleep", 3]])
    out = []
    for n in (2, 3):
        for combo in itertools.product(range(len(shapes)), repeat=n):
            for offs in itertools.product((0, 1), repeat=n):
                if offs[0] != 0:
                    continue
                tasks = [{"wid": i, "ctx": "a", "kind": "svc", "at": float(offs[i]), "ops": shapes[combo[i]] + [["mark", 9]]} for i in range(n)]
                out.append(tasks)
    return out


def generate(tier, seed, gated=frozenset()):
    small = enum_small()
    if tier == "quick":
        # quick: the 2-task schedules completely, every 4th 3-task schedule (thorough: all)
        small = [t for j, t in enumerate(small) if len(t) == 2 or j % 4 == seed % 4]
    for i, tasks in enumerate(small):
        for legacy in (False, True):
            yield {"tasks": tasks, "legacy": legacy, "tick": 5e-6, "stream": "enum", "n": i}
    rng = random.Random(f"C13-{tier}-{seed}")
    i = 0
    while True:
        tasks = []
        nt = rng.randint(2, 5)
        if rng.random() < 0.5:
            # phased: owners settle in at t=0, several contenders (takeovers and kill_me) arrive in the same loop iteration
            wid = 0
            ctx = rng.choice(["a", "b"])
            for name in rng.sample(NAMES, rng.randint(1, 3)):
                tasks.append({"wid": wid, "ctx": ctx, "kind": "svc", "at": 0.0, "ops": [["unique", name, False], ["sleep", rng.choice([3.0, 6.0])], ["mark", 99]]})
                wid += 1
            t1 = rng.choice([1.0, 2.5])
            for _ in range(rng.randint(2, 4)):
                ops = [["unique" if rng.random() < 0.75 else "unique_mod", rng.choice(NAMES), rng.random() < 0.5]]
                if rng.random() < 0.4:
                    ops.append(["unique", rng.choice(NAMES), rng.random() < 0.5])
                ops += [["sleep", rng.choice([0, 0.5, 2.0])], ["mark", 99]]
                tasks.append({"wid": wid, "ctx": ctx if rng.random() < 0.85 else ("b" if ctx == "a" else "a"), "kind": "svc", "at": t1, "ops": ops})
                wid += 1
            for legacy in (False, True):
                yield {"tasks": tasks, "legacy": legacy, "tick": rng.choice([1e-6, 5e-6, 5e-5]), "stream": "phased", "n": i}
            i += 1
            continue
        for wid in range(nt):
            ctx = rng.choice(["a", "a", "b"])
            kind = rng.choice(["svc", "svc", "svc", "dec_plain", "dec_km"])
            at = rng.choice([0.0, 0.0, 0.0, 1.0, 1.0, 2.5, 4.0])
            if kind != "svc":
                tasks.append({"wid": wid, "ctx": ctx, "kind": kind, "at": at, "dur": rng.choice([0.5, 2.0, 5.0])})
                if kind == "dec_plain" and rng.random() < 0.5:
                    # its twin is started by the very same event
                    tasks.append({"wid": wid + 100, "ctx": ctx, "kind": "dec_twin", "at": at, "dur": tasks[-1]["dur"], "twin_of": wid})
                continue
            ops = []
            for _ in range(rng.randint(1, 4)):
                k = rng.random()
                if k < 0.5:
                    ops.append(["unique" if rng.random() < 0.7 else "unique_mod", rng.choice(NAMES), rng.random() < 0.3])
                elif k < 0.8:
                    ops.append(["sleep", rng.choice([0, 0.5, 1.5, 3.0])])
                elif k < 0.93:
                    ops.append(["mark", rng.randint(1, 9)])
                else:
                    ops.append(["raise"])
                    break
            ops.append(["mark", 99])
            tasks.append({"wid": wid, "ctx": ctx, "kind": kind, "at": at, "ops": ops})
        for legacy in (False, True):
            yield {"tasks": tasks, "legacy": legacy, "tick": rng.choice([1e-6, 5e-6, 5e-5]), "stream": "random", "n": i, "preamble": rng.random() < 0.2}
        i += 1


def run_case(case):
    from ..sim import run_world, task_serial

    tasks = case["tasks"]
    files = {"a.py": SCRIPT.replace("{c}", "a"), "b.py": SCRIPT.replace("{c}", "b"), "modules/locker.py": LOCKER}
    if case.get("preamble"):
        # a claim made by a task pyscript did not start (the file-loading task): must not register, must not be cancelled
        files["a.py"] = "task.unique('n1')\nvf.rec('preamble_done')\n" + files["a.py"]

    def names_fn(d):
        return {k: task_serial(v) for k, v in d.items()}

    async def main(w):
        starts = sorted({t["at"] for t in tasks})
        snap_times = sorted({s + 0.25 for s in starts} | {s + 0.75 for s in starts} | {9.0, 12.0})
        todo = sorted([(t["at"], 0, t) for t in tasks] + [(s, 1, None) for s in snap_times], key=lambda x: (x[0], x[1]))
        pending = []

        async def call(t):
            try:
                if t["kind"] == "svc":
                    await w.hass.services.async_call("pyscript", f"worker_{t['ctx']}", {"wid": t["wid"], "ops": t["ops"]}, blocking=True)
            except (asyncio.CancelledError, Exception):  # noqa: BLE001
                pass

        for at, kind, t in todo:
            await w.at(at)
            if kind == 1:
                for c in ("a", "b"):
                    await w.hass.services.async_call("pyscript", f"snap_{c}", {"label": at}, blocking=True)
                await w.hass.services.async_call("pyscript", "snap_m_a", {"label": at}, blocking=True)
                continue
            if t["kind"] == "dec_twin":
                continue  # started by its twin's event
            if t["kind"] == "svc":
                pending.append(w.loop.create_task(call(t)))
            elif t["kind"] == "dec_plain" and any(x.get("twin_of") == t["wid"] for x in tasks):
                w.hass.bus.async_fire(f"go_{t['ctx']}_pair", {"wid": t["wid"], "wid2": t["wid"] + 100, "dur": t["dur"]})
            else:
                w.hass.bus.async_fire(f"go_{t['ctx']}_{'plain' if t['kind'] == 'dec_plain' else 'km'}", {"wid": t["wid"], "dur": t["dur"]})
        await w.at(14.0)
        for p in pending:
            if not p.done():
                p.cancel()
        from custom_components.pyscript.function import Function

        return {"name2task": sorted(Function.unique_name2task), "task2name": len(Function.unique_task2name)}

    w, final = run_world(main, files=files, legacy=case["legacy"], tick=case["tick"], extra_functions={"vf.names": names_fn}, keep=True)
    viol = []
    obs = {k: 0 for k in REQUIRED_OBS}
    obs["schedules"] = 1
    serial_of = {}
    live = set()
    owners = {}
    killed = {}  # wid -> time of kill
    ended = set()
    claimed_after_kill = []
    by_wid = {t["wid"]: t for t in tasks}
    contended = False
    for r in w.rec:
        tag = r["tag"]
        wid = r.get("wid")
        if tag == "start":
            serial_of[wid] = r["task"]
            live.add(wid)
            if by_wid[wid]["kind"] != "svc":
                obs["decorator_form_runs"] += 1
        if tag in ("mark", "claimed", "finish", "uq", "raising") and wid in killed and r["t"] > killed[wid] + 1.0:
            viol.append({"mech": "displaced_owner_still_running", "msg": f"task {wid} was displaced at t={killed[wid]:.3f} but recorded {tag} at t={r['t']:.3f}"})
        if tag == "uq":
            obs["unique_calls"] += 1
            name, km = r["name"], r["km"]
            owner = owners.get(name)
            if km and owner is not None and owner in live and owner in killed and owner != wid and r["t"] - killed[owner] < 0.5:
                # the owner has just been displaced but may not be dead yet (the reaper is asynchronous): whether it still
                # counts as a live owner is not decidable from outside, so follow what the caller actually did
                nxt = next((x for x in w.rec if x["seq"] > r["seq"] and x.get("wid") == wid), None)
                if nxt is not None and nxt["tag"] == "claimed" and nxt.get("name") == name:
                    owner = None
            elif owner is not None and (owner not in live or owner in killed):
                owner = None
            if km:
                if owner is not None and owner != wid:
                    killed[wid] = r["t"]
                    killed.setdefault(("km", wid), r["seq"])
                    obs["kill_me_suicides"] += 1
                    contended = True
                else:
                    owners[name] = wid
            else:
                if owner is not None and owner != wid:
                    killed[owner] = r["t"]
                    obs["takeovers"] += 1
                    contended = True
                owners[name] = wid
        elif tag == "claimed":
            t = by_wid[wid]
            if t["kind"] != "svc":
                # decorator form: the claim happened (atomically) before the body started; apply the rule now
                name = r["name"]
                owner = owners.get(name)
                if owner is not None and (owner not in live or owner in killed or owner == wid):
                    owner = None
                if t["kind"] == "dec_km":
                    if owner is not None:
                        viol.append({"mech": "kill_me_caller_continued", "msg": f"@task_unique(kill_me=True) function ran (wid {wid}) although task {owner} owns {name}"})
                    else:
                        owners[name] = wid
                else:
                    if owner is not None:
                        killed[owner] = r["t"]
                        obs["takeovers"] += 1
                        contended = True
                    owners[name] = wid
            elif ("km", wid) in killed and r["seq"] > killed[("km", wid)]:
                viol.append({"mech": "kill_me_caller_continued", "msg": f"task {wid} called task.unique(kill_me=True) while another live task owned {r['name']} but continued past the call"})
        elif tag in ("finish", "raising"):
            live.discard(wid)
            ended.add(wid)
            obs["tasks_finished"] += 1
        elif tag == "snap":
            obs["snapshots_checked"] += 1
            ctx = r["ctx"]
            want = {}
            for name, owner in owners.items():
                c, n = name.split(":")
                if c != ctx:
                    continue
                if owner in live and owner not in killed:
                    want[n] = serial_of.get(owner)
            got = r["names"]
            if got != want:
                extra = {k: v for k, v in got.items() if k not in want}
                if extra:
                    mech = "name_not_released"
                elif any(k not in got for k in want):
                    mech = "owner_missing_from_name2id"
                else:
                    mech = "name2id_wrong_owner"
                viol.append({"mech": mech, "msg": f"snapshot ctx {ctx} at t={r['label']}: task.name2id() = {got}, model {want} (owners {owners}, live {sorted(live)}, killed {sorted(k for k in killed if not isinstance(k, tuple))})"})
    # dec_km tasks that were (correctly) prevented never start: nothing to check; killed service tasks must not finish
    for wid in [k for k in killed if not isinstance(k, tuple)]:
        obs["tasks_killed"] += 1
    for t in tasks:
        wid = t["wid"]
        if t["kind"] == "svc" and wid not in killed and wid not in ended:
            viol.append({"mech": "innocent_task_did_not_finish", "msg": f"task {wid} was never displaced but did not finish: ops {t['ops']}"})
        if t["kind"] in ("dec_plain", "dec_twin") and wid not in killed and wid not in ended and wid in serial_of:
            viol.append({"mech": "innocent_task_did_not_finish", "msg": f"@task_unique function run {wid} never displaced but did not finish"})
    if final["name2task"] or final["task2name"]:
        viol.append({"mech": "name_not_released", "msg": f"after every task ended: unique_name2task={final['name2task']} unique_task2name={final['task2name']}"})
    if case.get("preamble") and not [r for r in w.rec if r["tag"] == "preamble_done"]:
        viol.append({"mech": "foreign_task_cancelled", "msg": "the file-loading task called task.unique() and did not get past it"})
    errs = [r for r in w.logs(level="ERROR") if "boom" not in r["msg"]]
    if errs:
        viol.append({"mech": "unexpected_error_log", "msg": str(errs[:2])[:900]})
    esc = [e for e in w.escapes if "boom" not in str(e)]
    if esc:
        viol.append({"mech": "escaped_exception", "msg": str(esc[:2])[:900]})
    seen, uniq = set(), []
    for v in viol:
        if v["mech"] not in seen:
            seen.add(v["mech"])
            uniq.append(v)
    sig = "".join({"start": "S", "uq": "U", "claimed": "C", "mark": "m", "finish": "F", "snap": "", "raising": "R"}.get(r["tag"], "") + (str(r.get("wid", "")) if r["tag"] in ("uq", "finish") else "") for r in w.rec)
    return {
        "verdict": "violated" if uniq else "held",
        "violations": uniq,
        "nontrivial": contended,
        "obs": dict(obs, legacy_cases=int(case["legacy"]), default_cases=int(not case["legacy"])),
        "cover": {"task_kinds": [t["kind"] + ":" + t["ctx"] for t in tasks], "stream": [case["stream"]]},
        "sig": sig[:200],
    }


def sample(case, res):
    return {"legacy": case["legacy"], "tasks": case["tasks"], "obs": res.get("obs")}
