"""C03 — functions, scoping, closures and classes behave like Python (CPython differential)."""

from __future__ import annotations

import hashlib
import random

ID = "C03"
LEVEL = "exploration"
FAMILIES = True
BUDGET = {"quick": 50, "thorough": 900}
QUICK_CASES = 1400  # generator items in the quick tier (fixed amount of work; BUDGET is then only a safety cap)
FLOOR = {"quick": 8000, "thorough": 8000}  # conclusive cases below which a run is inconclusive (the thorough tier is time-budgeted: same floor)
TIMEOUT = 120
REQUIRED_OBS = ["programs_compared", "binding_pairs", "scope_programs", "template_programs", "reserved_kw_checks", "typeerrors_agreed", "nameerrors_agreed"]
RULE = (
    "(a) argument-binding table: all 756 signatures with <= 2 parameters of each kind (positional-only, positional-or-keyword, "
    "trailing defaults, *args, keyword-only with/without defaults, **kw) x sampled call shapes (0-4 positional, 0-3 keywords incl. "
    "unknown and duplicate names, *seq, **dict); defaults and arguments are tracer calls, the function returns its bindings; "
    "(b) random scoping programs: nested definitions to depth 4 over the names x,y,z with global/nonlocal declarations, reads before "
    "assignment, augmented assignment, del, loop variables, comprehensions, closures returned or stored and called later; "
    "(c) parametrised templates: closures in loops, recursion, decorators (plain/with arguments/stacked), classes with __init__/"
    "methods/class attributes/inheritance/bound methods, @pyscript_compile functions, mutable defaults, keyword-only errors; "
    "(d) positive sub-check of the one intended deviation (reserved trigger keywords silently dropped). Compared with CPython: "
    "result, tracer log, exception type with NameError/UnboundLocalError as one family. Non-trivial: >= 2 tracer events and either a "
    "non-positional-only binding or a closure/class; distinct by source hash."
)
ASSUMPTIONS = [
    "reserved trigger keyword names are not used as unexpected keywords in the main stream (asserted separately, positively)",
    "script functions are never passed to native callables; classes define no special methods except __init__",
    "no @staticmethod/@property; @pyscript_compile functions do not use enclosing variables",
    "programs CPython's compiler rejects (e.g. nonlocal without binding) are discarded",
]
BATCH_N = 150
EXHAUSTIVE_SUBSPACES = {"quick": [], "thorough": ["all 756 signatures with <= 2 parameters of each kind (call shapes sampled)"]}


def warm():
    from ..warm import warm as _w

    _w()


def generate(tier, seed, gated=frozenset()):
    from ..gen.funcs import signatures

    nsig = len(signatures())
    per_sig = 12 if tier == "quick" else 80
    yield {"stream": "reserved"}
    step = 40
    i = 0
    sig_chunks = [(s, min(step, nsig - s)) for s in range(0, nsig, step)]
    rng = random.Random(f"C03-{tier}-{seed}")
    rng.shuffle(sig_chunks)
    while True:
        # interleave streams so a time cut keeps all of them represented
        if sig_chunks:
            s, n = sig_chunks.pop()
            yield {"stream": "bind", "start": s, "count": n, "per_sig": per_sig, "seed": f"C03b-{tier}-{seed}-{s}"}
        yield {"stream": "scope", "seed": f"C03s-{tier}-{seed}-{i}", "count": BATCH_N, "gated": sorted(gated)}
        yield {"stream": "tmpl", "seed": f"C03t-{tier}-{seed}-{i}", "count": 6}
        i += 1


def programs_of(case):
    from ..gen import funcs

    st = case["stream"]
    if st == "single":
        return [(p, {"kind": case.get("kind", "single")}) for p in case["programs"]]
    out = []
    if st == "reserved":
        return []
    if st == "bind":
        rng = random.Random(case["seed"])
        sigs = funcs.signatures()[case["start"] : case["start"] + case["count"]]
        for sig in sigs:
            dsrc, names, nt = funcs.render_sig(sig, 0)
            for shape in funcs.call_shapes(rng, case["per_sig"]):
                out.append((dsrc + funcs.render_call(shape, nt), {"kind": "bind", "nontrivial": bool(shape[1] or shape[2] is not None or shape[3] or sig["va"] or sig["kw"] or sig["kodef"])}))
        return out
    if st == "scope":
        rng = random.Random(case["seed"])
        for _ in range(case["count"]):
            g = funcs.ScopeGen(rng, case.get("gated", ()))
            out.append((g.program(), {"kind": "scope", "nontrivial": True}))
        return out
    if st == "tmpl":
        rng = random.Random(case["seed"])
        for _ in range(case["count"]):
            for p in funcs.templates(rng):
                out.append((p, {"kind": "tmpl", "nontrivial": True}))
        return out
    raise ValueError(st)


def run_case(case):
    from .. import interp
    from ..gen.funcs import RESERVED

    progs = programs_of(case)
    viol = []
    obs = {k: 0 for k in REQUIRED_OBS}
    obs["discarded_by_cpython_compiler"] = 0
    unit_keys, nontrivial = [], []
    cover = {"outcomes": {}, "streams": {}}
    cp_extra = {"pyscript_compile": lambda f: f}

    async def main(w):
        if case["stream"] == "reserved":
            for kwname in RESERVED:
                src = f"def f(a, b=2):\n    return (a, b)\nr = f(1, {kwname}=T(1, 'dropped'))\nr2 = f(a=3, {kwname}=4, b=5)\n"
                ps = await interp.run_pyscript(src)
                obs["reserved_kw_checks"] += 1
                obs["programs_compared"] += 1
                unit_keys.append("res-" + kwname)
                nontrivial.append("res-" + kwname)
                if ps["exc"] is not None or ps["globals"].get("r") != ("tuple", [1, 2]) or ps["globals"].get("r2") != ("tuple", [3, 5]) or ps["log"] != [1]:
                    viol.append({"mech": "reserved_keyword_not_dropped", "msg": f"{kwname}: exc={ps['exc']} r={ps['globals'].get('r')}\n{src}", "replay_case": {"stream": "reserved"}})
            # and any other unexpected keyword is a TypeError
            ps = await interp.run_pyscript("def f(a):\n    return a\nr = f(1, zz=2)\n")
            if ps["exc"] != "TypeError":
                viol.append({"mech": "unexpected_keyword_accepted", "msg": f"f(1, zz=2) gave {ps['exc']}", "replay_case": {"stream": "reserved"}})
            return
        for src, meta in progs:
            py = interp.run_cpython(src, extra=cp_extra)
            if "compile_error" in py:
                obs["discarded_by_cpython_compiler"] += 1
                continue
            ps = await interp.run_pyscript(src)
            obs["programs_compared"] += 1
            obs[{"bind": "binding_pairs", "scope": "scope_programs", "tmpl": "template_programs"}.get(meta["kind"], "programs_compared")] += 1 if meta["kind"] in ("bind", "scope", "tmpl") else 0
            key = hashlib.sha1(src.encode()).hexdigest()[:12]
            unit_keys.append(key)
            if meta.get("nontrivial") and len(py["log"]) >= 2:
                nontrivial.append(key)
            oc = interp.exc_family(py["exc"]) or "ok"
            cover["outcomes"][oc] = cover["outcomes"].get(oc, 0) + 1
            cover["streams"][meta["kind"]] = cover["streams"].get(meta["kind"], 0) + 1
            diffs = interp.compare(py, ps, families=True)
            if not diffs:
                if py["exc"] == "TypeError":
                    obs["typeerrors_agreed"] += 1
                if interp.exc_family(py["exc"]) == "NameError-family" or "NE" in py["log"]:
                    obs["nameerrors_agreed"] += 1
            else:
                viol.append(
                    {
                        "mech": case.get("_witness_of") or f"diff_{diffs[0][0]}_{meta['kind']}",
                        "msg": f"{diffs[0][1]}\n--- program ---\n{src}",
                        "replay_case": {"stream": "single", "programs": [src], "kind": meta["kind"]},
                    }
                )

    interp.run_batch_in_world(main)
    return {
        "verdict": "violated" if viol else "held",
        "violations": viol[:40],
        "units": max(1, obs["programs_compared"]),
        "unit_keys": unit_keys,
        "nontrivial_keys": nontrivial,
        "nontrivial": bool(nontrivial),
        "obs": obs,
        "cover": cover,
    }


def sample(case, res):
    ps = programs_of(case)
    return {"stream": case["stream"], "programs": [p for p, _ in ps[:2]]}
