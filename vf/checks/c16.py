"""C16 — state variables read and write Home Assistant state faithfully (dictionary model of the state machine)."""

from __future__ import annotations

import random

ID = "C16"
LEVEL = "exploration"
BUDGET = {"quick": 50, "thorough": 900}
QUICK_CASES = 2500  # generator items in the quick tier (fixed amount of work; BUDGET is then only a safety cap)
FLOOR = {"quick": 800, "thorough": 800}  # conclusive cases below which a run is inconclusive (the thorough tier is time-budgeted: same floor)
TIMEOUT = 90
REQUIRED_OBS = ["histories", "steps", "reads_checked", "writes_checked", "exceptions_agreed", "snapshots_rechecked", "external_changes", "attribute_preservation_checks", "priority_checks", "virtual_field_reads", "identical_rewrites"]
RULE = (
    "generated scripts with one function per step (the syntax under test is literal source): reads d.e / d.e.attr / virtual attributes (last_changed / last_updated / last_reported compared with Home Assistant's own State object, "
    "before and after a re-write with identical value and attributes by the script or from outside) / "
    "state.get; assignments d.e = v and d.e.attr = v; state.set with every argument combination (value, omitted value, new_attributes, keyword "
    "attributes); state.setattr; del d.e / del d.e.attr / state.delete; state.exist, state.names, state.getattr; values str/int/float/bool/"
    "None/list/dict; captured snapshots re-reported after every step; interleaved external hass.states changes; 10-40 steps over 3 entities. "
    "Oracle: entity -> (str value, attributes) dictionary model; expected exception types (NameError / AttributeError); hass.states compared "
    "with the model after every step; plus fixed name-priority scenarios (service name vs state name, local/global variable vs both). "
    "Non-trivial: >= 1 attribute-preservation rule exercised (plain assignment / omitted value / keyword merge / new_attributes replace)."
)
ASSUMPTIONS = [
    "assigning a captured snapshot object to another entity and state.set without a value on a missing entity are not generated",
    "attribute names never collide with str methods or the virtual attributes",
    "state values are compared as str(value), as Home Assistant stores them",
]
ENTS = ["pyscript.v0", "pyscript.v1", "pyscript.v2"]
ATTRS = ["a1", "a2", "lst"]
ODD_ATTRS = ["value", "new_attributes", "context", "var_name"]  # attribute names that are parameter names of state.set()


def warm():
    from ..warm import warm as _w

    _w()


def gen_value(rng, for_state=False):
    k = rng.random()
    if for_state:
        return rng.choice(["on", "off", 5, 2.5, True, "x y", 0, "17"])
    if k < 0.25:
        return rng.choice(["p", "q", ""])
    if k < 0.45:
        return rng.randint(-3, 9)
    if k < 0.55:
        return rng.choice([1.5, -0.25])
    if k < 0.65:
        return rng.choice([True, False])
    if k < 0.72:
        return None
    if k < 0.87:
        return [rng.randint(0, 3) for _ in range(rng.randint(0, 3))]
    return {"k": rng.randint(0, 3), "s": rng.choice(["a", "b"])}


def generate(tier, seed, gated=frozenset()):
    rng = random.Random(f"C16-{tier}-{seed}")
    yield {"kind": "priority", "legacy": False}
    yield {"kind": "priority", "legacy": True}
    i = 0
    while True:
        steps = []
        for _ in range(rng.randint(10, 40 if tier == "thorough" else 25)):
            ent = rng.choice(ENTS)
            at = rng.choice(ATTRS)
            k = rng.random()
            if k < 0.12:
                st = {"op": "read", "ent": ent}
            elif k < 0.20:
                st = {"op": "read_attr", "ent": ent, "attr": rng.choice(ATTRS + ["entity_id", "missing_q"])}
            elif k < 0.26:
                st = {"op": "get", "name": rng.choice([ent, f"{ent}.{at}", f"{ent}.missing_q", "bad", "a.b.c.d"])}
            elif k < 0.38:
                st = {"op": "assign", "ent": ent, "v": gen_value(rng, True)}
            elif k < 0.46:
                st = {"op": "assign_attr", "ent": ent, "attr": at if rng.random() < 0.8 else rng.choice(ODD_ATTRS), "v": gen_value(rng)}
            elif k < 0.62:
                st = {"op": "set", "ent": ent, "has_v": rng.random() < 0.7, "v": gen_value(rng, True), "new_attrs": ({a: gen_value(rng) for a in rng.sample(ATTRS, rng.randint(0, 2))} if rng.random() < 0.4 else None), "kw": ({a: gen_value(rng) for a in rng.sample(ATTRS, rng.randint(1, 2))} if rng.random() < 0.4 else {})}
            elif k < 0.67:
                st = {"op": "setattr", "ent": ent, "attr": at if rng.random() < 0.8 else rng.choice(ODD_ATTRS), "v": gen_value(rng)}
            elif k < 0.72:
                st = {"op": "del", "ent": ent}
            elif k < 0.77:
                st = {"op": "del_attr", "ent": ent, "attr": at}
            elif k < 0.80:
                st = {"op": "delete_fn", "name": rng.choice([ent, f"{ent}.{at}"])}
            elif k < 0.85:
                st = {"op": "exist", "name": rng.choice([ent, f"{ent}.{at}", f"{ent}.entity_id", "pyscript.nope", "x"])}
            elif k < 0.88:
                st = {"op": "names"}
            elif k < 0.92:
                st = {"op": "getattr", "ent": rng.choice(ENTS + ["pyscript.nope"])}
            elif k < 0.95:
                st = {"op": "snap", "ent": ent}
            elif k < 0.97:
                # assign a captured snapshot to another entity: what the target becomes is not judged, the snapshot must survive
                st = {"op": "assign_snap", "ent": ent, "k": rng.randint(0, 3)}
            else:
                attrs = {a: gen_value(rng) for a in rng.sample(ATTRS, rng.randint(0, 2))}
                if rng.random() < 0.3:
                    attrs["entity_id"] = ["light.a", "light.b"]  # like HA group entities: the virtual field still wins on reads
                st = {"op": "external", "ent": ent, "remove": rng.random() < 0.3, "v": gen_value(rng, True), "attrs": attrs}
            steps.append(st)
            if rng.random() < 0.06:
                # the virtual time fields around a re-write with identical value and attributes (Home Assistant then only
                # moves last_reported, in place on the same State object)
                steps += [{"op": "read_virt", "ent": ent}, {"op": "rewrite_same", "ent": ent, "by": rng.choice(["external", "script"])}, {"op": "read_virt", "ent": ent}]
        init = {e: {"s": str(gen_value(rng, True)), "a": {a: gen_value(rng) for a in rng.sample(ATTRS, rng.randint(0, 3))}} for e in ENTS if rng.random() < 0.7}
        for legacy in (False, True):
            yield {"kind": "history", "steps": steps, "init": init, "legacy": legacy, "n": i}
        i += 1


def render(case):
    lines = ["SNAPS = []", ""]
    for i, st in enumerate(case["steps"]):
        op = st["op"]
        lines.append(f"def step_{i}():")
        if op == "read":
            lines.append(f"    return {st['ent']}")
        elif op == "read_attr":
            lines.append(f"    return {st['ent']}.{st['attr']}")
        elif op == "get":
            lines.append(f"    return state.get({st['name']!r})")
        elif op == "assign":
            lines.append(f"    {st['ent']} = {st['v']!r}")
        elif op == "assign_attr":
            lines.append(f"    {st['ent']}.{st['attr']} = {st['v']!r}")
        elif op == "set":
            args = [repr(st["ent"])]
            if st["has_v"]:
                args.append(repr(st["v"]))
            if st["new_attrs"] is not None:
                args.append(f"new_attributes={st['new_attrs']!r}")
            for k, v in st["kw"].items():
                args.append(f"{k}={v!r}")
            lines.append(f"    state.set({', '.join(args)})")
        elif op == "setattr":
            lines.append(f"    state.setattr({st['ent'] + '.' + st['attr']!r}, {st['v']!r})")
        elif op == "del":
            lines.append(f"    del {st['ent']}")
        elif op == "del_attr":
            lines.append(f"    del {st['ent']}.{st['attr']}")
        elif op == "delete_fn":
            lines.append(f"    state.delete({st['name']!r})")
        elif op == "exist":
            lines.append(f"    return state.exist({st['name']!r})")
        elif op == "names":
            lines.append("    return sorted(state.names('pyscript'))")
        elif op == "getattr":
            lines.append(f"    return state.getattr({st['ent']!r})")
        elif op == "read_virt":
            lines.append(f"    return [str({st['ent']}.last_changed), str({st['ent']}.last_updated), str({st['ent']}.last_reported), str(state.get('{st['ent']}.last_reported'))]")
        elif op == "rewrite_same" and st["by"] == "script":
            lines.append(f"    state.set({st['ent']!r}, str({st['ent']}))")
        elif op == "snap":
            lines.append(f"    SNAPS.append({st['ent']})")
        elif op == "assign_snap":
            lines.append(f"    if len(SNAPS) > {st['k']}:")
            lines.append(f"        {st['ent']} = SNAPS[{st['k']}]")
        else:
            lines.append("    pass")
        lines.append("")
    lines.append("STEPS = {" + ", ".join(f"{i}: step_{i}" for i in range(len(case["steps"]))) + "}")
    lines.append(
        '''
@service
def run_step(n=None):
    try:
        r = STEPS[n]()
        vf.rec("res", n=n, ok=True, r=r)
    except Exception as e:
        vf.rec("res", n=n, ok=False, exc=type(e).__name__)
    vf.rec("snaps", n=n, snaps=[[str(s), state.getattr(s), s.entity_id] for s in SNAPS])
'''
    )
    return "\n".join(lines)


def norm(v):
    """JSON-ish normal form (tuples -> lists) for comparing attribute values."""
    if isinstance(v, (list, tuple)):
        return [norm(x) for x in v]
    if isinstance(v, dict):
        return {str(k): norm(x) for k, x in v.items()}
    return v


def _novirt(a):
    """The recorder reports a snapshot's attributes without the four virtual fields (an attribute of the same name is shadowed)."""
    return {k: v for k, v in a.items() if k not in ("entity_id", "last_changed", "last_updated", "last_reported")}


def expected_result(st, model):
    """Apply step to model (dict ent -> {"s","a"}); return ("ok", value) or ("exc", name)."""
    op = st["op"]
    if op == "read":
        e = model.get(st["ent"])
        return ("exc", "NameError") if e is None else ("ok", {"s": e["s"], "a": _novirt(norm(e["a"]))})
    if op == "read_attr":
        e = model.get(st["ent"])
        if e is None:
            return ("exc", "NameError")
        if st["attr"] == "entity_id":
            return ("ok", st["ent"])
        if st["attr"] not in e["a"]:
            return ("exc", "AttributeError")
        return ("ok", norm(e["a"][st["attr"]]))
    if op == "get":
        parts = st["name"].split(".")
        if len(parts) not in (2, 3):
            return ("exc", "NameError")
        e = model.get(f"{parts[0]}.{parts[1]}")
        if e is None:
            return ("exc", "NameError")
        if len(parts) == 2:
            return ("ok", {"s": e["s"], "a": _novirt(norm(e["a"]))})
        if parts[2] not in e["a"]:
            return ("exc", "AttributeError")
        return ("ok", norm(e["a"][parts[2]]))
    if op == "assign":
        e = model.get(st["ent"])
        model[st["ent"]] = {"s": str(st["v"]), "a": dict(e["a"]) if e else {}}
        return ("ok", None)
    if op in ("assign_attr", "setattr"):
        e = model.get(st["ent"])
        if e is None:
            return ("exc", "NameError")
        e["a"] = dict(e["a"], **{st["attr"]: st["v"]})
        return ("ok", None)
    if op == "set":
        e = model.get(st["ent"])
        if not st["has_v"] and e is None:
            return ("skip", None)
        s = str(st["v"]) if st["has_v"] else e["s"]
        a = dict(st["new_attrs"]) if st["new_attrs"] is not None else (dict(e["a"]) if e else {})
        a.update(st["kw"])
        model[st["ent"]] = {"s": s, "a": a}
        return ("ok", None)
    if op == "del":
        if st["ent"] not in model or model[st["ent"]] is None:
            return ("exc", "NameError")
        model[st["ent"]] = None
        return ("ok", None)
    if op == "del_attr":
        e = model.get(st["ent"])
        if e is None:
            return ("exc", "NameError")
        if st["attr"] not in e["a"]:
            return ("exc", "AttributeError")
        e["a"] = {k: v for k, v in e["a"].items() if k != st["attr"]}
        return ("ok", None)
    if op == "delete_fn":
        parts = st["name"].split(".")
        ent = f"{parts[0]}.{parts[1]}"
        e = model.get(ent)
        if e is None:
            return ("exc", "NameError")
        if len(parts) == 2:
            model[ent] = None
            return ("ok", None)
        if parts[2] not in e["a"]:
            return ("exc", "AttributeError")
        e["a"] = {k: v for k, v in e["a"].items() if k != parts[2]}
        return ("ok", None)
    if op == "exist":
        parts = st["name"].split(".")
        if len(parts) not in (2, 3):
            return ("ok", False)
        e = model.get(f"{parts[0]}.{parts[1]}")
        if e is None:
            return ("ok", False)
        if len(parts) == 2:
            return ("ok", True)
        return ("ok", parts[2] in e["a"] or parts[2] in ("entity_id", "last_changed", "last_updated", "last_reported"))
    if op == "names":
        return ("ok", sorted(k for k, v in model.items() if v is not None and k.startswith("pyscript.")))
    if op == "getattr":
        e = model.get(st["ent"])
        return ("ok", None if e is None else norm(e["a"]))
    if op == "snap":
        e = model.get(st["ent"])
        return ("exc", "NameError") if e is None else ("ok", None)
    if op == "assign_snap":
        return ("skip", None)
    if op == "read_virt" or (op == "rewrite_same" and st["by"] == "script"):
        return ("exc", "NameError") if model.get(st["ent"]) is None else ("ok", None)
    return ("ok", None)


PRIORITY_SCRIPT = '''
Box = vf.Box
glob = Box(item="global-attr")

@service
def twin(**kw):
    return None

@service
def probe():
    out = {}
    # a state entity named like an existing service: the service wins
    out["service_over_state"] = callable(pyscript.twin) and not isinstance(pyscript.twin, str)
    out["plain_state"] = str(pyscript.lone)
    # a global python variable named like a domain wins over state names
    out["global_var_over_state"] = glob.item
    # a local python variable wins over both
    pyscript = Box(twin="local-twin", lone="local-lone")
    out["local_over_service"] = pyscript.twin
    out["local_over_state"] = pyscript.lone
    out["enclosing_var_over_state"] = holder()
    vf.rec("probe", out=out)

# a variable of an enclosing function, used by the inner function only through attribute chains (one and two levels): it
# still wins over a state variable / attribute of that name
def holder():
    sensor = Box(c16=Box(unit="enclosing-unit"), top="enclosing-top")
    def inner():
        return sensor.c16.unit
    def inner1():
        return sensor.top
    return [inner(), inner1()]

# the same source text evaluated repeatedly while a global named like the domain comes and goes: every evaluation decides
# afresh whether `sensor.dyn` is a python attribute or a state variable
def dyn():
    return str(sensor.dyn)

def dyn_set(v):
    sensor.dyn = v

@service
def probe2():
    global sensor
    out = [dyn()]
    sensor = Box(dyn="global-dyn")
    out.append(dyn())
    dyn_set("written-to-global")
    out.append(sensor.dyn)
    del sensor
    out.append(dyn())
    dyn_set("written-to-state")
    out.append(dyn())
    vf.rec("probe2", out=out)
'''


def run_priority(case):
    from ..interp import Box
    from ..sim import run_world

    def pre(w):
        w.hass.states.async_set("pyscript.twin", "state-twin", {})
        w.hass.states.async_set("pyscript.lone", "state-lone", {})
        w.hass.states.async_set("glob.item", "state-glob", {})
        w.hass.states.async_set("sensor.c16", "state-c16", {"unit": "state-unit"})
        w.hass.states.async_set("sensor.top", "state-top", {})
        w.hass.states.async_set("sensor.dyn", "state-dyn", {})

    async def main(w):
        await w.hass.services.async_call("pyscript", "probe", {}, blocking=True)
        await w.settle()
        await w.hass.services.async_call("pyscript", "probe2", {}, blocking=True)
        await w.settle()

    w, _ = run_world(main, files={"prio.py": PRIORITY_SCRIPT}, legacy=case["legacy"], pre_setup=pre, extra_functions={"vf.Box": Box}, keep=True)
    viol = []
    pr = [r for r in w.rec if r["tag"] == "probe"]
    want = {"service_over_state": True, "plain_state": "state-lone", "global_var_over_state": "global-attr", "local_over_service": "local-twin", "local_over_state": "local-lone", "enclosing_var_over_state": ["enclosing-unit", "enclosing-top"]}
    if not pr or pr[0]["out"] != want:
        viol.append({"mech": "name_priority_violated", "msg": f"expected {want} got {pr and pr[0]['out']} errors={w.logs(level='ERROR')[:1]}"})
    pr2 = [r for r in w.rec if r["tag"] == "probe2"]
    want2 = ["state-dyn", "global-dyn", "written-to-global", "state-dyn", "written-to-state"]
    if not pr2 or pr2[0]["out"] != want2:
        viol.append({"mech": "name_priority_not_reevaluated", "msg": f"expected {want2} got {pr2 and pr2[0]['out']} errors={w.logs(level='ERROR')[:1]}"})
    return {"verdict": "violated" if viol else "held", "violations": viol, "nontrivial": True, "obs": {"priority_checks": 11, "histories": 0}, "sig": f"priority|{case['legacy']}"}


def run_case(case):
    if case["kind"] == "priority":
        return run_priority(case)
    from ..sim import run_world

    script = render(case)
    model = {e: None for e in ENTS}
    for e, v in case["init"].items():
        model[e] = {"s": v["s"], "a": dict(v["a"])}
    viol = []
    obs = {k: 0 for k in REQUIRED_OBS}
    obs["histories"] = 1
    first_snap = {}
    pres = 0

    def pre(w):
        for e, v in case["init"].items():
            w.hass.states.async_set(e, v["s"], v["a"])

    def compare_states(w, label):
        for e in ENTS:
            st = w.hass.states.get(e)
            m = model.get(e)
            got = None if st is None else {"s": st.state, "a": norm(dict(st.attributes))}
            want = None if m is None else {"s": m["s"], "a": norm(m["a"])}
            if got != want:
                viol.append({"mech": "state_machine_differs_from_model", "msg": f"{label}: {e} is {got}, model {want}"})
                return False
        return True

    async def main(w):
        nonlocal pres
        compare_states(w, "initial")
        for i, st in enumerate(case["steps"]):
            obs["steps"] += 1
            if st["op"] == "external":
                obs["external_changes"] += 1
                if st["remove"]:
                    if w.hass.states.get(st["ent"]) is not None:
                        w.hass.states.async_remove(st["ent"])
                    model[st["ent"]] = None
                else:
                    w.hass.states.async_set(st["ent"], str(st["v"]), st["attrs"])
                    model[st["ent"]] = {"s": str(st["v"]), "a": dict(st["attrs"])}
                await w.settle()
                continue
            if st["op"] == "rewrite_same" and st["by"] == "external":
                cur = w.hass.states.get(st["ent"])
                if cur is not None:
                    w.hass.states.async_set(st["ent"], cur.state, dict(cur.attributes))
                    obs["identical_rewrites"] = obs.get("identical_rewrites", 0) + 1
                await w.settle()
                continue
            before = {k: (None if v is None else {"s": v["s"], "a": dict(v["a"])}) for k, v in model.items()}
            kind, val = expected_result(st, model)
            start = len(w.rec)
            await w.hass.services.async_call("pyscript", "run_step", {"n": i}, blocking=True)
            await w.settle()
            res = [r for r in w.rec[start:] if r["tag"] == "res"]
            snaps = [r for r in w.rec[start:] if r["tag"] == "snaps"]
            if len(res) != 1:
                viol.append({"mech": "step_did_not_run", "msg": f"step {i} {st}: {res}"})
                return
            r = res[0]
            label = f"step {i} {st}"
            if kind == "skip":
                # not judged: resynchronise the model from hass
                for e in ENTS:
                    s_ = w.hass.states.get(e)
                    model[e] = None if s_ is None else {"s": s_.state, "a": dict(s_.attributes)}
                if not r["ok"]:
                    viol.append({"mech": "unexpected_exception", "msg": f"{label}: raised {r['exc']}"})
                    return
            elif kind == "exc":
                if r["ok"] or r["exc"] != val:
                    viol.append({"mech": "wrong_exception", "msg": f"{label}: expected {val}, got {'value ' + repr(r.get('r')) if r['ok'] else r['exc']}; entity before: {before.get(st.get('ent'))}"})
                    return
                obs["exceptions_agreed"] += 1
            elif kind == "ok":
                if not r["ok"]:
                    viol.append({"mech": "unexpected_exception", "msg": f"{label}: raised {r['exc']}, expected {val!r}; entity before: {before.get(st.get('ent'))}"})
                    return
                if st["op"] == "read_virt":
                    cur = w.hass.states.get(st["ent"])
                    want_v = [str(cur.last_changed), str(cur.last_updated), str(cur.last_reported), str(cur.last_reported)]
                    obs["virtual_field_reads"] = obs.get("virtual_field_reads", 0) + 1
                    if list(r["r"]) != want_v:
                        viol.append({"mech": "stale_virtual_time_field", "msg": f"{label}: last_changed/last_updated/last_reported read as {r['r']}, Home Assistant has {want_v}"})
                        return
                if st["op"] in ("read", "read_attr", "get", "exist", "names", "getattr"):
                    obs["reads_checked"] += 1
                    if norm(r["r"]) != norm(val):
                        viol.append({"mech": "wrong_value_read", "msg": f"{label}: got {r['r']!r} expected {val!r}"})
                        return
                else:
                    obs["writes_checked"] += 1
            if st["op"] in ("assign", "set", "assign_attr", "setattr", "del_attr"):
                pres += 1
                obs["attribute_preservation_checks"] += 1
            if not compare_states(w, label):
                return
            if st["op"] == "snap" and kind == "ok":
                pass
            if not snaps:
                viol.append({"mech": "captured_snapshot_changed", "msg": f"{label}: the captured snapshots could not be re-read (errors: {w.logs(level='ERROR')[-1:]})"})
                return
            if snaps:
                for j, s in enumerate(snaps[0]["snaps"]):
                    if j not in first_snap:
                        first_snap[j] = s
                    else:
                        obs["snapshots_rechecked"] += 1
                        if s != first_snap[j]:
                            viol.append({"mech": "captured_snapshot_changed", "msg": f"{label}: snapshot {j} was {first_snap[j]} now {s}"})
                            return

    w, _ = run_world(main, files={"c16.py": script}, legacy=case["legacy"], pre_setup=pre, keep=True)
    errs = w.logs(level="ERROR")
    if errs and not viol:
        viol.append({"mech": "unexpected_error_log", "msg": str(errs[:2])[:900]})
    if w.escapes and not viol:
        viol.append({"mech": "escaped_exception", "msg": str(w.escapes[:2])[:900]})
    return {
        "verdict": "violated" if viol else "held",
        "violations": viol[:3],
        "nontrivial": pres > 0,
        "obs": dict(obs, legacy_cases=int(case["legacy"]), default_cases=int(not case["legacy"])),
        "cover": {"ops": [st["op"] for st in case["steps"]]},
        "sig": "".join(st["op"][0] for st in case["steps"])[:60] + f"|{case['legacy']}",
    }


def sample(case, res):
    if case["kind"] == "priority":
        return {"kind": "priority", "script": PRIORITY_SCRIPT}
    return {"legacy": case["legacy"], "init": case["init"], "steps": case["steps"][:8], "script_head": render(case)[:900]}
