"""C10 — reload loads exactly what the files and configuration now dictate."""

from __future__ import annotations

import os
import random

ID = "C10"
LEVEL = "exploration"
BUDGET = {"quick": 55, "thorough": 900}
QUICK_CASES = 1200  # generator items in the quick tier (fixed amount of work; BUDGET is then only a safety cap)
FLOOR = {"quick": 400, "thorough": 400}  # conclusive cases below which a run is inconclusive (the thorough tier is time-budgeted: same floor)
TIMEOUT = 120
HASHSEEDS = {"quick": [0, 1, 2, 3], "thorough": list(range(16))}
REQUIRED_OBS = ["histories", "reloads", "load_records_checked", "contexts_compared", "untouched_contexts_verified", "reexecuted_contexts", "import_edges", "named_or_star_reloads", "app_config_changes", "counter_values_checked", "module_form_swaps", "option_flips", "failed_imports_modelled"]
RULE = (
    "real temp trees over pyscript/*.py, scripts/**, apps/<app>.py, apps/<app>/__init__.py + sibling, modules/<m>.py, modules/<pkg>/"
    "__init__.py + sibling with generated import edges (import m, from m import X, import pkg, relative imports inside packages, an app "
    "sibling importing a module) x histories of 3-10 steps: modify (new source generation), touch (mtime only), create, delete, '#'-rename "
    "of a file or directory, add/remove/change app configuration, each followed by pyscript.reload with no argument, a context name or "
    "'*'. Every file's preamble records (context name, source generation) when it executes and defines a trigger that answers with the "
    "generation it was loaded with. Oracle: reference model of the documented reload rules (changed set, package widening, transitive "
    "importers, re-execution of auto-loaded or re-imported contexts); after every reload: executed contexts (as a multiset, and order among "
    "auto-loaded ones), set of loaded contexts, every loaded context answers with the expected generation (untouched ones keep theirs). "
    "PYTHONHASHSEED swept over the workers. Non-trivial: >= 1 import edge and >= 2 reloads with different changed sets."
)
ASSUMPTIONS = [
    "a module file may be deleted while files still import it: those files are re-executed, fail at the import and stay unloaded until the module is back (the error reports themselves are C18's subject)",
    "an app never imports a different app as a module; mtimes set by the harness are all distinct (4 in 10 touches move a file's mtime backwards)",
    "a module that stays loaded after its last importer stopped importing it is left loaded (the code never unloads unchanged modules); the model does the same and this is reported in evidence as orphan_module_contexts",
]
MODS = ["m1", "m1x", "m2", "p1"]  # m1x: a module whose name merely starts with another module's name


def warm():
    from ..warm import warm as _w

    _w()


def generate(tier, seed, gated=frozenset()):
    i = 0
    while True:
        for legacy in (False, True):
            yield {"seed": f"C10-{tier}-{seed}-{i}", "legacy": legacy}
        i += 1


# ------------------------------------------------------------------ tree + model
def ctx_of(rel):
    """Documented context name of a file (None if it is not a context on its own)."""
    p = rel[:-3]
    if p.endswith("/__init__"):
        p = p[: -len("/__init__")]
    parts = p.split("/")
    if len(parts) == 1:
        return "file." + parts[0]
    return ".".join(parts)


def autoload(rel):
    parts = rel.split("/")
    if len(parts) == 1:
        return True
    if parts[0] == "scripts":
        return True
    if parts[0] == "apps":
        return len(parts) == 2 or (len(parts) == 3 and parts[2] == "__init__.py")
    return False


def commented(rel):
    return rel.startswith("#") or "/#" in rel


class Tree:
    def __init__(self, rng):
        self.rng = rng
        self.gen = 0
        self.mtime = 1_700_000_000.0
        self.files = {}  # rel -> {"gen", "imports": [(form, mod)], "mtime"}
        self.apps = {}  # app name -> config dict
        self.renamed = {}  # original rel -> current (commented) rel

    def new_file(self, rel, imports=None):
        self.gen += 1
        self.mtime += 10
        self.files[rel] = {"gen": self.gen, "imports": imports if imports is not None else self.rand_imports(rel), "mtime": self.mtime}

    def rand_imports(self, rel):
        r = self.rng
        if rel in ("modules/m2.py", "modules/m2/__init__.py", "modules/m1x.py"):
            return []
        allowed = MODS
        if rel in ("modules/m1.py", "modules/m1/__init__.py"):
            allowed = ["m2"]
        elif rel.startswith("modules/p1/inner/"):
            allowed = ["m2"]
        elif rel.startswith("modules/p1/"):
            allowed = ["m1", "m2"] if rel.endswith("__init__.py") else ["m2"]
        out = []
        for m in allowed:
            if m != "p1" and f"modules/{m}.py" not in self.files and f"modules/{m}/__init__.py" not in self.files:
                r.random()
                continue
            if r.random() < 0.45:
                out.append((r.choice(["import", "from"]), m))
        return out

    def source(self, rel):
        f = self.files[rel]
        c = ctx_of(rel)
        lines = [f"GEN = {f['gen']}", "vf.rec('load', ctx=pyscript.get_global_ctx(), gen=GEN)"]
        if rel == "modules/p1/__init__.py":
            lines.append("from . import sub")
            if "modules/p1/inner/__init__.py" in self.files:
                lines.append("from . import inner")
        if rel == "modules/p1/inner/__init__.py":
            lines.append("from . import deep")
        if rel == "apps/a2/__init__.py":
            lines.append("from . import helper")
        for form, m in f["imports"]:
            if form == "import":
                lines.append(f"import {m}")
            else:
                lines.append(f"from {m} import GEN as GEN_{m}")
        name = c.replace(".", "_")
        lines += ["COUNT = 0", "", "@event_trigger('who')", f"def who_{name}(**kw):", "    global COUNT", "    COUNT += 1", f"    vf.rec('alive', ctx={c!r}, gen=GEN, count=COUNT)", ""]
        return "\n".join(lines)

    def present(self):
        """rel -> info for files that count (exist, not commented, app configured)."""
        out = {}
        for rel, f in self.files.items():
            if commented(rel):
                continue
            parts = rel.split("/")
            if parts[0] == "apps" and len(parts) == 2 and parts[1][:-3] not in self.apps:
                continue
            out[rel] = f
        return out

    def auto(self, rel):
        """Is this (present) file loaded on its own?  The __init__.py of an unconfigured app package is still seen as a
        file of the package (so that the package's contexts are discarded), but it is not loaded."""
        parts = rel.split("/")
        if parts[0] == "apps" and len(parts) == 3 and parts[2] == "__init__.py" and parts[1] not in self.apps:
            return False
        return autoload(rel)


def direct_imports(tree, rel, present_ctx):
    """Context names this file imports directly (in source order), given which module contexts can be found."""
    out = []
    if rel == "modules/p1/__init__.py":
        out.append("modules.p1.sub")
        if "modules/p1/inner/__init__.py" in tree.files:
            out.append("modules.p1.inner")
    if rel == "modules/p1/inner/__init__.py":
        out.append("modules.p1.inner.deep")
    if rel == "apps/a2/__init__.py":
        out.append("apps.a2.helper")
    for _, m in tree.files[rel]["imports"]:
        out.append("modules." + m)
    return out


def rel_of_ctx(tree, ctx):
    for rel in tree.present():
        if ctx_of(rel) == ctx:
            # apps/a1.py vs apps/a1/__init__.py: package wins
            return rel
    return None


class Model:
    """Reference model of load_scripts (reference.rst 'Reloading' + load order)."""

    def __init__(self, tree):
        self.tree = tree
        self.loaded = {}  # ctx -> {"gen", "mtime", "cfg", "imports": set}
        self.failures = 0

    def app_cfg(self, rel):
        parts = rel.split("/")
        if parts[0] == "apps" and (len(parts) == 2 or parts[2] == "__init__.py"):
            app = parts[1][:-3] if len(parts) == 2 else parts[1]
            return self.tree.apps.get(app, "<not configured>")
        return None

    def execute(self, rel, executed):
        """Execute a file: record, then import its modules depth first (loading those not loaded yet)."""
        t = self.tree
        ctx = ctx_of(rel)
        f = t.files[rel]
        executed.append((ctx, f["gen"]))
        entry = {"gen": f["gen"], "mtime": f["mtime"], "cfg": self.app_cfg(rel), "imports": set(), "count": 0}
        self.loaded.pop(ctx, None)
        for ictx in direct_imports(t, rel, None):
            if ictx not in self.loaded:
                irel = rel_of_ctx(t, ictx)
                if irel is None or not self.execute(irel, executed):
                    # the import fails (module file gone): this file is not loaded, what it imported before stays
                    self.failures += 1
                    return False
            entry["imports"].add(ictx)
        self.loaded[ctx] = entry
        return True

    def initial_load(self):
        executed = []
        for rel in sorted(self.tree.present(), key=ctx_of):
            if self.tree.auto(rel) and ctx_of(rel) not in self.loaded:
                self.execute(rel, executed)
        return executed

    def reload(self, only):
        t = self.tree
        files = {}
        for rel, f in t.present().items():
            c = ctx_of(rel)
            if c in files and not rel.endswith("__init__.py"):
                continue
            files[c] = rel
        ctx_all = dict(self.loaded)
        delete = set()
        force = {c: False for c in files}
        if only is not None and only != "*":
            if only not in ctx_all and only not in files:
                return None, "error"
            if only not in files:
                delete.add(only)
            else:
                force[only] = True
        elif only == "*":
            delete = set(ctx_all)
            force = {c: True for c in files}
        else:
            for c in ctx_all:
                if c not in files:
                    delete.add(c)
            for c, rel in files.items():
                if c in ctx_all:
                    f = t.files[rel]
                    e = ctx_all[c]
                    if f["gen"] != e["gen"] or f["mtime"] != e["mtime"] or self.app_cfg(rel) != e["cfg"]:
                        delete.add(c)
                        force[c] = True
                else:
                    force[c] = t.auto(rel)
        will = set()
        for c in files:
            if c.startswith("modules.") and (c in delete or force[c]):
                will.add(".".join(c.split(".")[:2]))
        for c in delete:
            # a deleted module file is a changed module too: what imports it is reloaded (and then fails to load)
            if c.startswith("modules.") and c not in files:
                will.add(".".join(c.split(".")[:2]))

        def closure(c, seen):
            out = set()
            for i in ctx_all.get(c, {}).get("imports", ()):  # loaded contexts only
                if i in seen:
                    continue
                seen.add(i)
                out.add(i)
                out |= closure(i, seen)
            return out

        if will:
            for c in ctx_all:
                for m in closure(c, {c}):
                    if ".".join(m.split(".")[:2]) in will:
                        delete.add(c)
                        if c in files:
                            force[c] = True
        done = set()
        for c in sorted(files):
            if not force[c] or not (c.startswith("apps.") or c.startswith("modules.")):
                continue
            root = ".".join(c.split(".")[:2])
            if root in done:
                continue
            done.add(root)
            for c2, rel2 in files.items():
                if c2 == root or c2.startswith(root + "."):
                    top = rel2 in (root.replace(".", "/") + "/__init__.py", root.replace(".", "/") + ".py")
                    force[c2] = top
                    delete.add(c2)
        for c in delete:
            self.loaded.pop(c, None)
        executed = []
        for c in sorted(files):
            rel = files[c]
            if t.auto(rel) and force[c]:
                self.execute(rel, executed)
        return executed, "ok"


def initial_tree(rng):
    t = Tree(rng)
    t.new_file("modules/m2.py")
    t.new_file("modules/m1x.py")
    t.new_file("modules/m1.py")
    t.new_file("modules/p1/__init__.py")
    t.new_file("modules/p1/sub.py")
    if rng.random() < 0.5:
        # files two directories below modules/<pkg> (contexts modules.p1.inner and modules.p1.inner.deep)
        t.new_file("modules/p1/inner/deep.py")
        t.new_file("modules/p1/inner/__init__.py")
    for rel in ["x.py", "y.py", "scripts/s1.py", "scripts/sub/s2.py", "apps/a1.py", "apps/a2/__init__.py", "apps/a2/helper.py"]:
        if rng.random() < 0.8 or rel.startswith("apps/a2/"):
            t.new_file(rel)
    for app in ("a1", "a2"):
        if rng.random() < 0.75:
            # (an app may be configured with an empty entry, `apps: {a2: }` in yaml)
            t.apps[app] = {"k": rng.randint(0, 9)} if rng.random() < 0.8 else None
    return t


def importers_of(tree, mod_root):
    """Files (commented or unconfigured ones too: they may come back) that import modules.<mod_root> directly."""
    return [rel for rel in tree.files if ("modules." + mod_root) in direct_imports(tree, rel, None)]


def run_case(case):
    from ..sim import run_world

    rng = random.Random(case["seed"])
    tree = initial_tree(rng)
    model = Model(tree)
    viol = []
    obs = {k: 0 for k in REQUIRED_OBS}
    obs["histories"] = 1
    obs["import_edges"] = sum(len(f["imports"]) for f in tree.files.values())
    cover = {"steps": []}
    changed_sets = set()
    orphan = 0

    def write_all(w):
        for rel in tree.files:
            w.write(rel, tree.source(rel), mtime=tree.files[rel]["mtime"])

    async def verify(w, label, exp_exec, start):
        from custom_components.pyscript.global_ctx import GlobalContextMgr

        recs = [r for r in w.rec[start:] if r["tag"] == "load"]
        got = [(r["ctx"], r["gen"]) for r in recs]
        obs["load_records_checked"] += len(got)
        if sorted(got) != sorted(exp_exec):
            miss = [x for x in exp_exec if x not in got]
            extra = [x for x in got if x not in exp_exec]
            if extra and not miss:
                mech = "context_reexecuted_needlessly"
            elif miss and not extra:
                mech = "context_not_reexecuted"
            else:
                mech = "wrong_contexts_executed"
            viol.append({"mech": mech, "msg": f"{label}: executed {got}, model {exp_exec} (missing {miss}, extra {extra})"})
            return False
        auto_got = [x for x in got if not (x[0].startswith("modules.") or x[0].count(".") >= 2 and x[0].startswith("apps."))]
        auto_exp = [x for x in exp_exec if x in auto_got]
        if auto_got != auto_exp:
            viol.append({"mech": "load_order_differs", "msg": f"{label}: auto-loaded contexts executed in order {auto_got}, model {auto_exp}"})
            return False
        loaded = {n for n in GlobalContextMgr.contexts if n.split(".")[0] in ("file", "apps", "modules", "scripts")}
        obs["contexts_compared"] += 1
        if loaded != set(model.loaded):
            viol.append({"mech": "loaded_context_set_differs", "msg": f"{label}: loaded {sorted(loaded)}, model {sorted(model.loaded)}"})
            return False
        s2 = len(w.rec)
        w.hass.bus.async_fire("who", {})
        await w.settle()
        alive = {}
        counts = {}
        for r in w.rec[s2:]:
            if r["tag"] == "alive":
                alive.setdefault(r["ctx"], []).append(r["gen"])
                counts.setdefault(r["ctx"], []).append(r["count"])
        for c, e in model.loaded.items():
            if alive.get(c) != [e["gen"]]:
                viol.append({"mech": "context_has_wrong_generation", "msg": f"{label}: context {c} answers with generations {alive.get(c)}, model {e['gen']}"})
                return False
            e["count"] += 1
            if counts.get(c) != [e["count"]]:
                mech = "untouched_context_lost_its_variables" if e["count"] > 1 else "reloaded_context_kept_old_variables"
                viol.append({"mech": mech, "msg": f"{label}: context {c} global counter is {counts.get(c)}, model {e['count']}"})
                return False
            obs["counter_values_checked"] += 1
        if set(alive) - set(model.loaded):
            viol.append({"mech": "unloaded_context_still_alive", "msg": f"{label}: {sorted(set(alive) - set(model.loaded))} still answer"})
            return False
        return True

    async def main(w):
        nonlocal orphan
        start = 0
        # the initial load already happened in setup: compare
        exp = model.initial_load()
        if not await verify(w, "initial load", exp, 0):
            return
        nsteps = rng.randint(3, 10)
        flipped = False
        flips_allowed = rng.random() < 0.3
        if flips_allowed:
            # (the saved copy of the options that a flip is compared with only exists after a first reload)
            await w.reload()
        for si in range(nsteps):
            present = tree.present()
            k = rng.random()
            op = None
            if k < 0.28:
                rel = rng.choice(sorted(tree.files))
                if commented(rel):
                    continue
                tree.gen += 1
                tree.mtime += 10
                tree.files[rel] = dict(tree.files[rel], gen=tree.gen, mtime=tree.mtime)
                if rng.random() < 0.4:
                    tree.files[rel]["imports"] = tree.rand_imports(rel)
                w.write(rel, tree.source(rel), mtime=tree.mtime)
                op = f"modify {rel}"
            elif k < 0.40:
                rel = rng.choice(sorted(tree.files))
                if commented(rel):
                    continue
                tree.mtime += 10
                # a modification time may also go backwards (restored backup, git checkout): any change counts
                new_mtime = tree.mtime if rng.random() < 0.6 else 1_600_000_000.0 + (tree.mtime - 1_700_000_000.0)
                tree.files[rel]["mtime"] = new_mtime
                os.utime(os.path.join(w.pydir, rel), (new_mtime, new_mtime))
                op = f"touch {rel}" + (" (older mtime)" if new_mtime < tree.mtime else "")
            elif k < 0.50:
                cand = [r for r in ["x.py", "y.py", "z.py", "scripts/s1.py", "scripts/sub/s2.py", "scripts/s3.py", "apps/a1.py"] if r not in tree.files]
                cand += [f"modules/{m}.py" for m in ("m1", "m2") if f"modules/{m}.py" not in tree.files and f"modules/{m}/__init__.py" not in tree.files]
                if not cand:
                    continue
                rel = rng.choice(cand)
                tree.new_file(rel)
                w.write(rel, tree.source(rel), mtime=tree.files[rel]["mtime"])
                op = f"create {rel}"
            elif k < 0.62:
                cand = [r for r in tree.files if not commented(r) and not r.startswith("modules/") and not r.startswith("apps/a2/")]
                # a module may go only if nothing present imports it
                for m in ("m1", "m2"):
                    for r_ in (f"modules/{m}.py", f"modules/{m}/__init__.py"):
                        if r_ in tree.files and (not importers_of(tree, m) or rng.random() < 0.5):
                            cand.append(r_)
                if not cand:
                    continue
                rel = rng.choice(sorted(cand))
                del tree.files[rel]
                w.remove(rel)
                op = f"delete {rel}"
            elif k < 0.72:
                # '#'-rename a file (or bring it back)
                back = [r for r in tree.files if commented(r)]
                if back and rng.random() < 0.6:
                    rel = rng.choice(sorted(back))
                    orig = rel.replace("#", "")
                    if orig in tree.files:
                        continue
                    tree.files[orig] = tree.files.pop(rel)
                    os.rename(os.path.join(w.pydir, rel), os.path.join(w.pydir, orig))
                    op = f"uncomment {orig}"
                else:
                    cand = [r for r in tree.files if not commented(r) and not r.startswith("modules/") and not r.startswith("apps/a2/")]
                    if not cand:
                        continue
                    rel = rng.choice(sorted(cand))
                    d, b = os.path.split(rel)
                    new = os.path.join(d, "#" + b) if d else "#" + b
                    tree.files[new] = tree.files.pop(rel)
                    os.rename(os.path.join(w.pydir, rel), os.path.join(w.pydir, new))
                    op = f"comment {rel}"
            elif k < 0.86:
                app = rng.choice(["a1", "a2"])
                kk = rng.random()
                if app in tree.apps and kk < 0.4:
                    del tree.apps[app]
                    op = f"appcfg remove {app}"
                elif app in tree.apps:
                    tree.apps[app] = {"k": (tree.apps[app] or {"k": 0})["k"] + 1}
                    op = f"appcfg change {app}"
                else:
                    tree.apps[app] = {"k": rng.randint(0, 9)}
                    op = f"appcfg add {app}"
                obs["app_config_changes"] += 1
                w.config["apps"] = {a: (dict(c) if c is not None else None) for a, c in tree.apps.items()}
            elif k < 0.93:
                m = rng.choice(["m1", "m2"])
                a, b = f"modules/{m}.py", f"modules/{m}/__init__.py"
                src, dst = (a, b) if a in tree.files else (b, a)
                if src not in tree.files:
                    continue
                imports = tree.files.pop(src)["imports"]
                w.remove(src if src == a else f"modules/{m}")
                tree.new_file(dst, imports=imports)
                w.write(dst, tree.source(dst), mtime=tree.files[dst]["mtime"])
                obs["module_form_swaps"] += 1
                op = f"reform {src}->{dst}"
            elif k < 0.96 and flips_allowed:
                # a global option changes in the yaml configuration: that reload re-executes everything, later ones do not
                w.config["allow_all_imports"] = not w.config.get("allow_all_imports", False)
                flipped = True
                obs["option_flips"] += 1
                op = "flip allow_all_imports"
            else:
                op = "nothing"
            # which reload
            kk = rng.random()
            only = None
            if kk < 0.2:
                only = "*"
            elif kk < 0.45:
                names = sorted(set(model.loaded) | {ctx_of(r) for r in tree.present()})
                only = rng.choice(names) if names else None
            if only is not None:
                obs["named_or_star_reloads"] += 1
            cover["steps"].append(op.split()[0] + ("+" + ("star" if only == "*" else "named") if only else ""))
            start = len(w.rec)
            before = {c: e["gen"] for c, e in model.loaded.items()}
            if flipped:
                only = "*" if only is None or only == "*" else only
                exp, status = model.reload("*")
                flipped = False
            else:
                exp, status = model.reload(only)
            await w.reload(only)
            if os.environ.get("VF_DEBUG"):
                print(f"step {si}: {op}; reload({only!r}); apps={tree.apps}; model exec={exp}; got={[(r['ctx'], r['gen']) for r in w.rec[start:] if r['tag'] == 'load']}", flush=True)
                for r in w.logs()[-12:]:
                    print("     log", r["level"], r["msg"][:160])
            obs["reloads"] += 1
            if status == "error":
                if not [r for r in w.logs(level="ERROR") if "no global context" in r["msg"]]:
                    viol.append({"mech": "unknown_context_reload_not_reported", "msg": f"reload({only!r})"})
                    return
                exp = []
            changed_sets.add(tuple(sorted(c for c, _ in exp)))
            obs["reexecuted_contexts"] += len(exp)
            obs["untouched_contexts_verified"] += sum(1 for c, g in before.items() if model.loaded.get(c, {}).get("gen") == g and c not in {x[0] for x in exp})
            if not await verify(w, f"step {si} ({op}; reload({only!r}))", exp, start):
                return
        # orphan modules (loaded, but no loaded context imports them)
        imported = set()
        for e in model.loaded.values():
            imported |= e["imports"]
        orphan = sum(1 for c in model.loaded if c.startswith("modules.") and c.count(".") == 1 and c not in imported)

    files = {rel: tree.source(rel) for rel in tree.files}
    config = {"apps": {a: (dict(c) if c is not None else None) for a, c in tree.apps.items()}}

    def pre(w):
        for rel in tree.files:
            os.utime(os.path.join(w.pydir, rel), (tree.files[rel]["mtime"], tree.files[rel]["mtime"]))

    w, _ = run_world(main, files=files, config=config, legacy=case["legacy"], pre_setup=pre, keep=True)
    errs = [r for r in w.logs(level="ERROR") if "no global context" not in r["msg"] and not (model.failures and any(x in r["msg"] for x in ("Failed to load", "module_import: failed", "not allowed", "ModuleNotFoundError", "cannot import name")))]
    if errs and not viol:
        viol.append({"mech": "unexpected_error_log", "msg": str(errs[:2])[:1000]})
    if w.escapes and not viol:
        viol.append({"mech": "escaped_exception", "msg": str(w.escapes[:2])[:800]})
    return {
        "verdict": "violated" if viol else "held",
        "violations": viol[:2],
        "nontrivial": obs["import_edges"] > 0 and len(changed_sets) >= 2,
        "obs": dict(obs, orphan_module_contexts=orphan, failed_imports_modelled=model.failures, legacy_cases=int(case["legacy"]), default_cases=int(not case["legacy"])),
        "cover": cover,
        "sig": "|".join(cover["steps"]) + f"|{case['legacy']}",
    }


def sample(case, res):
    rng = random.Random(case["seed"])
    t = initial_tree(rng)
    return {"legacy": case["legacy"], "files": {r: f["imports"] for r, f in t.files.items()}, "apps": t.apps, "example_source": t.source(sorted(t.files)[0])}
