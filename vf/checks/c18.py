"""C18 — script errors are contained and attributed to the right file, function, line."""

from __future__ import annotations

import builtins
import importlib
import os
import random
import re
import sys
import traceback

ID = "C18"
LEVEL = "exploration"
BUDGET = {"quick": 55, "thorough": 900}
QUICK_CASES = 1600
FLOOR = {"quick": 500, "thorough": 500}  # conclusive cases below which a run is inconclusive (the thorough tier is time-budgeted: same floor)
TIMEOUT = 120
REQUIRED_OBS = ["programs", "faults_injected", "error_reports_checked", "script_frames_compared", "chained_blocks_compared", "later_occurrences_served", "bystander_runs_checked", "load_time_faults", "expression_faults", "entry_kinds_seen", "exception_kinds_seen", "site_kinds_seen", "link_kinds_seen"]
RULE = (
    "generated programs: a call chain of depth 1-5 whose links are plain functions, methods, __init__, lambdas, closures, user-decorator "
    "wrappers and functions of an imported module; in every link the call to the next link (and in the last link the fault) sits at a "
    "random statement position between filler statements inside one of ~30 statement contexts (expression statement, assignment, return, "
    "augmented assignment, if/while test, for iterable, comprehension element, multi-line tuple/call/dict on a later line, f-string, "
    "conditional/boolean/compare/binary operand, try body, except body (adds a context chain), finally body, else body, assert, lambda "
    "body, keyword argument, subscript, with body). Faults: raise of every concrete builtin Exception class, user exception classes, raise "
    "... from ..., natural faults (ZeroDivisionError, IndexError, KeyError, AttributeError, ValueError, NameError, TypeError). Entry points: "
    "file load, @event_trigger / @state_trigger / @time_trigger('startup') / @service / @mqtt_trigger / @webhook_trigger functions, "
    "task.create tasks, done-callbacks, and trigger / state_active / filter expression strings. Oracle: CPython runs the very same files "
    "(decorators shimmed to identity) and calls the same entry: the (file, function, line) triples of the script frames of every block of "
    "the exception chain, the exception type and message must equal what pyscript logs; exactly one ERROR record per faulting occurrence, "
    "on a logger of the entry point's file; no record on any other logger, nothing reaches the loop exception handler; the faulting trigger "
    "serves a later non-faulting and a later faulting occurrence; a bystander function of the same file and a bystander file answer before "
    "and after; a load-time fault leaves exactly that file unloaded."
)
ASSUMPTIONS = [
    "script frames only: frames of pyscript/HA internals that the log may show in between are ignored",
    "the module-level frame is called '<module>' by CPython and by the context name in pyscript; they are identified",
    "user exception classes are compared by class name (CPython prefixes the module name)",
]


def warm():
    from ..warm import warm as _w

    _w()


ENTRY_KINDS = ["load", "event", "state", "startup", "service", "mqtt", "webhook", "task", "done_cb", "state_expr", "active_expr", "event_expr"]


def generate(tier, seed, gated=frozenset()):
    i = 0
    while True:
        yield {"seed": f"C18-{tier}-{seed}-{i}", "legacy": i % 2 == 1, "entry": ENTRY_KINDS[(i // 2) % len(ENTRY_KINDS)], "gated": sorted(gated)}
        i += 1


# ------------------------------------------------------------------ generator
BUILTIN_EXCS = sorted(
    n
    for n, c in vars(builtins).items()
    if isinstance(c, type) and issubclass(c, Exception) and not issubclass(c, Warning) and n not in ("UnicodeDecodeError", "UnicodeEncodeError", "UnicodeTranslateError", "ExceptionGroup", "BaseExceptionGroup", "EnvironmentError", "IOError")
)

NATURAL = [
    ("1 // (G_RES - G_RES)", "ZeroDivisionError"),
    ("[1, 2][G_RES + 50]", "IndexError"),
    ("{'a': 1}['zz']", "KeyError"),
    ("None.missing_attr", "AttributeError"),
    ("int('not a number')", "ValueError"),
    ("undefined_name_xyz + G_RES", "NameError"),
    ("'text' + G_RES", "TypeError"),
    ("len(G_RES)", "TypeError"),
]

# statement contexts: E is an expression (the call of the next link, or a faulting expression); returns lines (relative indent)
SITES = {
    "expr": lambda E: [f"{E}"],
    "assign": lambda E: [f"r = {E}"],
    "return": lambda E: [f"return {E}"],
    "augassign": lambda E: ["r = 1", f"r += {E}"],
    "multi_target": lambda E: [f"r = q = {E}"],
    "if_test": lambda E: [f"if {E}:", "    r = 2"],
    "elif_test": lambda E: ["if v is None:", "    r = 1", f"elif {E}:", "    r = 2"],
    "while_test": lambda E: [f"while {E}:", "    break"],
    "for_iter": lambda E: [f"for _i in [{E}]:", "    r = _i"],
    "listcomp": lambda E: [f"r = [{E} for _i in range(1)]"],
    "dictcomp": lambda E: [f"r = {{_i: {E} for _i in range(1)}}"],
    "comp_cond": lambda E: [f"r = [_i for _i in range(1) if {E} or True]"],
    "tuple_line2": lambda E: ["r = (1,", f"     {E},", "     3)"],
    "call_line2": lambda E: ["r = max(1,", f"        {E} or 0,", "        3)"],
    "dict_line2": lambda E: ["r = {", "    'a': 1,", f"    'b': {E},", "}"],
    "kwarg": lambda E: [f"r = dict(a=1, b={E})"],
    "fstring": lambda E: [f"r = f'<{{ {E} }}>'"],
    "ifexp": lambda E: [f"r = {E} if v is not None else 0"],
    "boolop": lambda E: [f"r = v is None or {E}"],
    "compare": lambda E: [f"r = -10**9 < ({E} or 0) < 10**9"],
    "binop": lambda E: [f"r = 1 + ({E} or 0)"],
    "unary": lambda E: [f"r = not {E}"],
    "subscript": lambda E: [f"r = [0, 1, 2][({E} or 0) * 0]"],
    "try_body": lambda E: ["try:", f"    r = {E}", "finally:", "    q = 0"],
    "except_body": lambda E: ["try:", "    raise KeyError('inner')", "except KeyError:", f"    r = {E}"],
    "finally_body": lambda E: ["try:", "    q = 0", "finally:", f"    r = {E}"],
    "else_body": lambda E: ["try:", "    q = 0", "except KeyError:", "    q = 1", "else:", f"    r = {E}"],
    "assert": lambda E: [f"assert {E} or True, 'never'"],
    "lambda_body": lambda E: [f"r = (lambda: {E})()"],
    "with_body": lambda E: ["with CM() as _cm:", f"    r = {E}"],
    "with_exit_raises": lambda E: ["with CMR() as _cm:", f"    r = {E}"],
    "nested_if": lambda E: ["if v is not None:", "    if True:", f"        r = {E}"],
    "for_body": lambda E: ["for _i in range(2):", "    if _i == 1:", f"        r = {E}"],
    "while_body": lambda E: ["_n = 0", "while _n < 2:", "    _n += 1", "    if _n == 2:", f"        r = {E}"],
    "starred": lambda E: [f"r = [*[{E}], 1]"],
    "global_assign": lambda E: ["global G_RES", f"G_RES = {E}"],
    # evaluated while a nested definition is being made
    "default_arg": lambda E: [f"def _inner(a={E}):", "    return a", "r = _inner"],
    "default_arg_line2": lambda E: ["def _inner(a=1,", f"           b={E}):", "    return a", "r = _inner"],
    "decorator_arg": lambda E: ["def _mk(x):", "    return lambda f: f", f"@_mk({E})", "def _inner():", "    return 1"],
    "class_body": lambda E: ["class _Tmp:", "    a = 1", f"    b = {E}", "r = _Tmp"],
    "class_base": lambda E: [f"class _Tmp([object][({E} or 0) * 0]):", "    a = 1", "r = _Tmp"],
}
# sites that add a frame of their own (name of the extra frame as CPython shows it)
LINK_KINDS = ["func", "method", "init", "lambda", "closure", "decorated", "module", "staticm", "compiled"]


class Gen:
    def __init__(self, rng, gated=()):
        self.r = rng
        self.gated = set(gated)
        self.sites_used = []
        self.links_used = []

    def filler(self, n, ind):
        return [f"{ind}f{i} = {self.r.randint(0, 99)}" for i in range(n)]

    def site(self, E, ind, allow_return=True, native_ok=False):
        r = self.r
        # a lambda is compiled to native Python: by documentation its body cannot call pyscript functions
        names = [s for s in SITES if s not in self.gated and (allow_return or s not in ("return", "global_assign")) and (native_ok or s != "lambda_body")]
        name = r.choice(names)
        self.sites_used.append(name)
        return [ind + l for l in SITES[name](E)]

    def fault(self, ind):
        """-> lines of the faulting statement; sets self.exc_kind"""
        r = self.r
        k = r.random()
        BUILTIN_EXCS = [x for x in globals()["BUILTIN_EXCS"] if "stopiteration" not in self.gated or not x.startswith("Stop")]
        if k < 0.35:
            X = r.choice(BUILTIN_EXCS)
            self.exc_kind = X
            return [f"{ind}raise {X}('boom {X}')"]
        if k < 0.45:
            self.exc_kind = "user:MyErr"
            return [f"{ind}raise MyErr('boom user')"]
        if k < 0.55:
            self.exc_kind = "user:SubErr"
            return [f"{ind}raise SubErr('boom sub', 7)"]
        if k < 0.65:
            X, Y = r.choice(BUILTIN_EXCS), r.choice(BUILTIN_EXCS)
            self.exc_kind = f"from:{X}"
            return [f"{ind}raise {X}('boom from') from {Y}('the cause')"]
        if k < 0.72:
            X = r.choice(BUILTIN_EXCS)
            self.exc_kind = f"ctx:{X}"
            return [f"{ind}try:", f"{ind}    q = {{}}['nokey']", f"{ind}except KeyError:", f"{ind}    raise {X}('boom in handler')"]
        if k < 0.77:
            X = r.choice(BUILTIN_EXCS)
            self.exc_kind = f"fromnone:{X}"
            return [f"{ind}try:", f"{ind}    q = {{}}['nokey']", f"{ind}except KeyError:", f"{ind}    raise {X}('boom from none') from None"]
        if k < 0.80:
            self.exc_kind = "assert"
            return [f"{ind}assert v is None, 'boom assert'"]
        E, kind = r.choice(NATURAL)
        self.exc_kind = "natural:" + kind
        return self.site(E, ind, native_ok=True)

    def build(self, entry):
        """-> files {rel: source}, meta"""
        r = self.r
        depth = r.randint(1, 5) if entry not in ("state_expr", "active_expr", "event_expr") else 0
        kinds = []
        for i in range(depth):
            kinds.append(r.choice(LINK_KINDS))
        # a lambda / natively compiled function can only be the last link (its body cannot call pyscript functions)
        kinds = [("func" if k in ("lambda", "compiled") and i < depth - 1 else k) for i, k in enumerate(kinds)]
        # module links must be a suffix of the chain (a module cannot call back into the script)
        if "module" in kinds:
            j = kinds.index("module")
            kinds = kinds[:j] + ["module"] * (len(kinds) - j)
        self.links_used = list(kinds)
        x, m = [], []  # defs for x.py and modules/em.py (defined in reverse order so that names exist when decorators run)
        calls = []
        for i, k in enumerate(kinds):
            calls.append({"compiled": f"L{i}(v)", "func": f"L{i}(v)", "method": f"K{i}().go(v)", "init": f"K{i}(v)", "lambda": f"L{i}(v)", "closure": f"L{i}(v)", "decorated": f"L{i}(v)", "module": f"em.M{i}(v)" if (i == 0 or kinds[i - 1] != "module") else f"M{i}(v)", "staticm": f"K{i}.go(v)"}[k])
        for i in reversed(range(depth)):
            k = kinds[i]
            last = i == depth - 1
            tgt = m if k == "module" else x

            def body(ind, allow_return=True):
                lines = self.filler(r.randint(0, 3), ind)
                if last:
                    lines += self.fault(ind)
                else:
                    lines += self.site(calls[i + 1], ind, allow_return)
                lines += self.filler(r.randint(0, 2), ind)
                return lines

            if k == "compiled":
                # natively compiled: the fault may sit in a try/finally (or handler) that keeps executing after the raise
                # (native code cannot use script classes: no context managers of the script, no class with a script __init__)
                saved_gated = set(self.gated)
                self.gated |= {"with_body", "with_exit_raises"}
                inner = self.fault("        ")
                while self.exc_kind == "user:SubErr":
                    inner = self.fault("        ")
                self.gated = saved_gated
                wrap = r.choice(["plain", "finally", "finally", "reraise"])
                if wrap == "plain":
                    lines_ = [l[4:] for l in inner]
                elif wrap == "finally":
                    lines_ = ["    try:"] + inner + ["    finally:", "        q = 0", "        q = 1", "        q = 2"]
                else:
                    lines_ = ["    try:"] + inner + ["    except Exception as exc_:", "        q = 0", "        raise RuntimeError('wrapped') from exc_"]
                    self.exc_kind = "from:RuntimeError"
                tgt += ["@pyscript_compile", f"def L{i}(v):"] + self.filler(r.randint(0, 2), "    ") + lines_ + ["    return 1", ""]
            elif k == "func":
                tgt += [f"def L{i}(v):"] + body("    ") + ["    return 1", ""]
            elif k == "module":
                tgt += [f"def M{i}(v):"] + body("    ") + ["    return 1", ""]
            elif k == "method":
                tgt += [f"class K{i}:", "    tag = 1", "", "    def go(self, v):"] + body("        ") + ["        return 1", ""]
            elif k == "staticm":
                tgt += [f"class K{i}:", "    @staticmethod", "    def go(v):"] + body("        ") + ["        return 1", ""]
            elif k == "init":
                tgt += [f"class K{i}:", "    def __init__(self, v):"] + body("        ", allow_return=False) + ["        self.v = v", ""]
            elif k == "lambda":
                E = calls[i + 1] if not last else r.choice(NATURAL)[0]
                if last:
                    self.exc_kind = "natural:" + dict(NATURAL)[E]
                if r.random() < 0.5:
                    tgt += [f"L{i} = lambda v: {E}", ""]
                else:
                    tgt += [f"L{i} = (lambda v:", f"      {E})", ""]
            elif k == "closure":
                tgt += [f"def mk{i}():", "    k = 3", "", "    def inner(v):"] + body("        ") + ["        return k", "", "    return inner", "", f"L{i} = mk{i}()", ""]
            elif k == "decorated":
                tgt += [f"def deco{i}(fn):", "    def wrapper(v):"] + self.filler(r.randint(0, 2), "        ") + self.site("fn(v)", "        ") + ["        return 1", "", "    return wrapper", "", f"@deco{i}", f"def L{i}(v):"] + body("    ") + ["    return 1", ""]
        first = calls[0] if depth else None
        return kinds, x, m, first


CM_DEF = ["class CM:", "    def __enter__(self):", "        return self", "", "    def __exit__(self, *a):", "        return False", "", "class CMR:", "    def __enter__(self):", "        return self", "", "    def __exit__(self, *a):", "        if a[0] is not None:", "            raise LookupError('exit failed')", "        return False", ""]
HEAD_X = ["import em", "", "class MyErr(Exception):", "    pass", "", "class SubErr(MyErr):", "    def __init__(self, msg, code):", "        MyErr.__init__(self, msg)", "        self.code = code", "", "G_RES = 0", ""] + CM_DEF
HEAD_M = ["class MyErr(Exception):", "    pass", "", "class SubErr(MyErr):", "    def __init__(self, msg, code):", "        MyErr.__init__(self, msg)", "        self.code = code", "", "G_RES = 0", ""] + CM_DEF


class _Fixed:
    """A hand-written program (witness of a known finding) in place of a generated one."""

    def __init__(self, case):
        self.sites_used = list(case.get("sites", []))
        self.exc_kind = case.get("exc")


def build_case(case):
    if "x_src" in case:
        return _Fixed(case), list(case.get("links", [])), {"x.py": case["x_src"], "modules/em.py": case.get("m_src", ""), "y.py": "@event_trigger('by_y')\ndef bystander(**kw):\n    vf.rec('by', who='y')\n"}
    rng = random.Random(case["seed"])
    g = Gen(rng, case.get("gated", ()))
    entry = case["entry"]
    g.exc_kind = None
    kinds, x, m, first = g.build(entry)
    head = list(HEAD_X)
    if rng.random() < 0.4:
        # a user decorator that raises while a function is being defined, handled by the script itself: the definitions
        # that follow (entry point, bystanders) must be unaffected
        head += ["def bad_deco(fn):", "    raise ValueError('deco boom')", "", "try:", "    @bad_deco", "    def never():", "        pass", "except ValueError:", "    G_RES = 0", ""]
        g.sites_used.append("caught_decorator_fault_before")
    body = list(x)
    tail = []
    # entry function: runs the chain when asked to (so that later occurrences can be served without the fault)
    if entry == "load":
        tail += ["vf.rec('loading', who='x')"] + g.site(first.replace("(v)", "(1)"), "", allow_return=False) + ["vf.rec('loaded', who='x')"]
    elif entry in ("state_expr", "active_expr", "event_expr"):
        pass
    else:
        ent = ["    vf.rec('enter', boom=boom)", "    v = 1", "    if boom:"] + g.site(first, "        ", allow_return=False) + ["    vf.rec('served', boom=boom)"]
        if entry == "event":
            tail += ["@event_trigger('go')", "def entry(boom=0, **kw):"] + ent
        elif entry == "state":
            tail += ["@state_trigger('pyscript.go')", "def entry(value=None, **kw):", "    boom = int(value)"] + ent
        elif entry == "startup":
            tail += ["@time_trigger('startup')", "@event_trigger('go')", "def entry(boom=1, **kw):"] + ent
        elif entry == "service":
            tail += ["@service('pyscript.go')", "def entry(boom=0):"] + ent
        elif entry == "mqtt":
            tail += ["@mqtt_trigger('vf/go')", "def entry(payload=None, **kw):", "    boom = int(payload)"] + ent
        elif entry == "webhook":
            tail += ["@webhook_trigger('vfhook')", "def entry(payload=None, **kw):", "    boom = int(payload['boom'])"] + ent
        elif entry == "task":
            tail += ["def entry(boom=0):"] + ent + ["", "@event_trigger('go')", "def starter(boom=0, **kw):", "    task.create(entry, boom=boom)"]
        elif entry == "done_cb":
            tail += ["def entry(boom=0):"] + ent + ["", "def job():", "    return 5", "", "@event_trigger('go')", "def starter(boom=0, **kw):", "    t = task.create(job)", "    task.add_done_callback(t, entry, boom)", "    task.add_done_callback(t, after_cb)", "    task.wait({t})", "    vf.rec('starter_done')", "", "def after_cb():", "    vf.rec('after_cb')"]
    if entry == "state_expr":
        tail += ["@state_trigger('1 // int(pyscript.d) >= 0')", "def entry(**kw):", "    vf.rec('served', boom=0)"]
    elif entry == "active_expr":
        tail += ["@event_trigger('go')", "@state_active('1 // int(pyscript.d) >= 0')", "def entry(**kw):", "    vf.rec('served', boom=0)"]
    elif entry == "event_expr":
        tail += ["@event_trigger('go', '1 // d >= 0')", "def entry(**kw):", "    vf.rec('served', boom=0)"]
    byst = ["", "@event_trigger('by_x')", "def bystander(**kw):", "    vf.rec('by', who='x')", "", "@service('pyscript.by_x_service')", "def bystander_service():", "    vf.rec('by', who='x_service')", ""]
    if entry == "load":
        src_x = "\n".join(head + byst + body + tail) + "\n"
    else:
        src_x = "\n".join(head + body + tail + byst) + "\n"
    src_m = "\n".join(HEAD_M + m) + "\n"
    src_y = "@event_trigger('by_y')\ndef bystander(**kw):\n    vf.rec('by', who='y')\n"
    return g, kinds, {"x.py": src_x, "modules/em.py": src_m, "y.py": src_y}


# ------------------------------------------------------------------ CPython reference
class _Shim:
    def rec(self, *a, **k):
        pass


def _ident(*a, **k):
    def deco(f):
        return f

    return deco


def cpython_reference(files, root, entry):
    """Run x.py as a module (and call entry(boom=1) unless the fault is at load time); return the exception chain as blocks of
    (file rel, func, line) plus (type name, message), outermost cause first - the order in which a traceback prints them."""
    shim = {"vf": _Shim(), "pyscript_compile": (lambda f: f), "event_trigger": _ident, "state_trigger": _ident, "time_trigger": _ident, "service": _ident, "mqtt_trigger": _ident, "webhook_trigger": _ident, "state_active": _ident, "task": None}
    old = {k: getattr(builtins, k, None) for k in shim}
    for k, v in shim.items():
        setattr(builtins, k, v)
    saved_path, saved_mods = list(sys.path), set(sys.modules)
    old_dwb, sys.dont_write_bytecode = sys.dont_write_bytecode, True
    for rel, text in files.items():
        p = os.path.join(root, rel)
        os.makedirs(os.path.dirname(p), exist_ok=True)
        with open(p, "w", encoding="utf-8") as f:
            f.write(text)
    sys.path[:0] = [root, os.path.join(root, "modules")]
    importlib.invalidate_caches()
    exc = None
    try:
        try:
            mod = importlib.import_module("x")
            if entry != "load":
                mod.entry(boom=1) if entry not in ("state", "mqtt", "webhook") else mod.entry(**({"value": "1"} if entry == "state" else {"payload": "1"} if entry == "mqtt" else {"payload": {"boom": "1"}}))
        except Exception as e:  # noqa: BLE001
            exc = e
    finally:
        sys.path[:] = saved_path
        for k in list(sys.modules):
            if k not in saved_mods:
                del sys.modules[k]
        for k, v in old.items():
            if v is None:
                try:
                    delattr(builtins, k)
                except AttributeError:
                    pass
            else:
                setattr(builtins, k, v)
        sys.dont_write_bytecode = old_dwb
        importlib.invalidate_caches()
    if exc is None:
        return None
    blocks = []

    def walk(e):
        if e.__cause__ is not None:
            walk(e.__cause__)
            link = "cause"
        elif e.__context__ is not None and not e.__suppress_context__:
            walk(e.__context__)
            link = "context"
        else:
            link = None
        frames = []
        for fs in traceback.extract_tb(e.__traceback__):
            if fs.filename.startswith(root):
                frames.append((os.path.relpath(fs.filename, root), fs.name, fs.lineno))
        blocks.append({"link": link, "frames": frames, "type": type(e).__name__, "msg": "".join(traceback.format_exception_only(e)).strip()})

    walk(exc)
    return blocks


FRAME_RE = re.compile(r'^  File "(.+)", line (\d+), in (.+)$')
CAUSE = traceback._cause_message.strip()
CONTEXT = traceback._context_message.strip()


def parse_report(msg, pydir):
    """Formatted traceback text -> blocks like cpython_reference's."""
    blocks = []
    cur = {"link": None, "frames": [], "tail": []}
    link_next = None
    for line in msg.split("\n"):
        s = line.strip()
        if s == CAUSE or s == CONTEXT:
            blocks.append(cur)
            cur = {"link": "cause" if s == CAUSE else "context", "frames": [], "tail": []}
            continue
        mt = FRAME_RE.match(line)
        if mt:
            fn = mt.group(1)
            if fn.startswith(pydir):
                cur["frames"].append((os.path.relpath(fn, pydir), mt.group(3), int(mt.group(2))))
            cur["tail"] = []
            continue
        if line and not line.startswith(" "):
            cur["tail"].append(line)
    blocks.append(cur)
    out = []
    for b in blocks:
        tail = "\n".join(b["tail"]).strip()
        tname = tail.split(":")[0].split(".")[-1].strip() if tail else ""
        out.append({"link": b["link"], "frames": b["frames"], "type": tname, "msg": tail})
    return out


def norm_frames(frames, module_names):
    out = []
    for f, name, line in frames:
        if name == "<module>" or name in module_names:
            name = "<module>"
        out.append((f, name, line))
    return out


def norm_msg(msg):
    """'x.MyErr: boom' / 'custom_components.pyscript.eval.MyErr: boom' -> 'MyErr: boom'."""
    head, sep, rest = msg.partition(":")
    return head.split(".")[-1].strip() + sep + rest


def run_case(case):
    import shutil
    import tempfile

    from ..sim import _tmp_base, run_world

    g, kinds, files = build_case(case)
    entry = case["entry"]
    obs = {k: 0 for k in REQUIRED_OBS}
    obs["programs"] = 1
    viol = []
    cover = {"entry": [entry], "links": sorted(set(kinds)), "sites": sorted(set(g.sites_used)), "exc": [str(g.exc_kind)]}
    is_expr = entry in ("state_expr", "active_expr", "event_expr")

    # CPython first (tells us whether the program faults at all and where)
    ref = None
    if not is_expr:
        root = tempfile.mkdtemp(prefix="vfc18-", dir=_tmp_base())
        try:
            ref = cpython_reference(files, root, entry)
        finally:
            shutil.rmtree(root, ignore_errors=True)
        if ref is None:
            return {"verdict": "inconclusive", "why": "generated program does not fault on CPython"}

    st = {}

    async def trigger(w, boom):
        """Make the entry point run once (boom: with the fault)."""
        if entry in ("event", "task", "done_cb", "startup"):
            w.fire("go", {"boom": boom})
        elif entry == "state":
            # the trigger needs a change of value: go through a value that does not fault
            if boom:
                w.set_state("pyscript.go", "1")
            else:
                st["n"] = st.get("n", 0) + 1
                w.set_state("pyscript.go", "0" if st["n"] % 2 else "00")
        elif entry == "service":
            await w.call("pyscript", "go", {"boom": boom}, blocking=True)
        elif entry == "mqtt":
            w.broker.publish("vf/go", str(boom))
        elif entry == "webhook":
            import json

            from homeassistant.components import webhook
            from homeassistant.util.aiohttp import MockRequest

            req = MockRequest(content=json.dumps({"boom": str(boom)}).encode(), mock_source="vf", method="POST", headers={"Content-Type": "application/json"})
            w.hass.async_create_task(webhook.async_handle_webhook(w.hass, "vfhook", req))
        elif entry == "state_expr":
            w.set_state("pyscript.d", "0" if boom else str(st.setdefault("d", 1)))
            st["d"] = st.get("d", 1) + 1
        elif entry == "active_expr":
            w.set_state("pyscript.d", "0" if boom else "1")
            await w.settle()
            w.fire("go", {})
        elif entry == "event_expr":
            w.fire("go", {"d": 0 if boom else 1})
        await w.settle()

    def reports(w, n0):
        return [r for r in w.logtap.records[n0:] if r["level"] in ("ERROR", "CRITICAL")]

    async def main(w):
        from custom_components.pyscript.global_ctx import GlobalContextMgr

        pydir = w.pydir
        mods = {"file.x", "modules.em", "file.y", "x", "em"}

        def check_report(recs, label):
            if len(recs) != 1:
                viol.append({"mech": "error_not_reported_once" if recs else "error_not_reported", "msg": f"{label}: {len(recs)} ERROR records: {[ (r['name'], r['msg'][:200]) for r in recs[:3]]}"})
                return
            rec = recs[0]
            obs["error_reports_checked"] += 1
            if not rec["name"].startswith("custom_components.pyscript.file.x"):
                viol.append({"mech": "error_on_wrong_logger", "msg": f"{label}: logger {rec['name']}: {rec['msg'][:300]}"})
                return
            if is_expr:
                if "ZeroDivisionError" not in rec["msg"]:
                    viol.append({"mech": "report_lacks_exception_type", "msg": f"{label}: {rec['msg'][:400]}"})
                return
            got = parse_report(rec["msg"], pydir)
            if len(got) != len(ref):
                stop = "coroutine raised Stop" in rec["msg"]
                viol.append({"mech": "stopiteration_reported_as_runtimeerror" if stop else "exception_chain_differs", "msg": f"{label}: pyscript reports {len(got)} chained blocks {[b['msg'] for b in got]}, CPython {len(ref)} {[b['msg'] for b in ref]}\n{rec['msg'][:1500]}"})
                return
            for bi, (a, b) in enumerate(zip(got, ref)):
                obs["chained_blocks_compared"] += 1
                if norm_msg(a["msg"]) != norm_msg(b["msg"]):
                    viol.append({"mech": "exception_type_or_message_differs", "msg": f"{label} block {bi}: pyscript {a['msg']!r} CPython {b['msg']!r}"})
                    return
                if a["link"] != b["link"]:
                    viol.append({"mech": "exception_chain_differs", "msg": f"{label} block {bi}: link {a['link']} vs {b['link']}"})
                    return
                fa, fb = norm_frames(a["frames"], mods), norm_frames(b["frames"], mods)
                if entry != "load" and bi == len(ref) - 1 or entry == "load":
                    pass
                obs["script_frames_compared"] += len(fb)
                if "decorated" in case.get("gated", ()) and len(fa) == len(fb):
                    # known finding decorator_wrapper_named_after_decorated_function (shown by its witness on every run): only
                    # the name of a user decorator's wrapper frame is exempt; its file, line and position are still compared
                    fa = [(x[0], "wrapper", x[2]) if (y[1] == "wrapper" and x[0] == y[0] and x[2] == y[2]) else x for x, y in zip(fa, fb)]
                if fa != fb:
                    if len(fa) == len(fb) and all(x == y or (x[0] == y[0] and x[2] == y[2] and y[1] == "wrapper" and x[1] != "wrapper") for x, y in zip(fa, fb)):
                        mech = "decorator_wrapper_named_after_decorated_function"
                    elif [(f, n) for f, n, _ in fa] == [(f, n) for f, n, _ in fb]:
                        mech = "traceback_line_differs"
                    elif len(fa) != len(fb):
                        mech = "traceback_frame_count_differs"
                    else:
                        mech = "traceback_function_differs"
                    viol.append({"mech": mech, "msg": f"{label} block {bi}: pyscript frames {fa} CPython {fb}\n{rec['msg'][:1500]}"})
                    return

        # ---- bystanders before
        async def bystanders(label, expect_x=True):
            n0 = len(w.rec)
            w.fire("by_x", {})
            w.fire("by_y", {})
            has_service = w.hass.services.has_service("pyscript", "by_x_service")
            if has_service and "x_src" not in case:
                await w.call("pyscript", "by_x_service", {}, blocking=True)
            await w.settle()
            who = sorted(r["who"] for r in w.rec[n0:] if r["tag"] == "by")
            exp = (["x", "x_service"] if expect_x else []) + ["y"]
            if "x_src" in case:
                who = [x for x in who if x != "x_service"]
                exp = [x for x in exp if x != "x_service"]
            if has_service and not expect_x:
                viol.append({"mech": "entry_point_of_unloaded_file_survives", "msg": f"{label}: service pyscript.by_x_service of the file that failed to load is still registered"})
                return
            obs["bystander_runs_checked"] += len(exp)
            if who != exp:
                viol.append({"mech": "bystander_disturbed", "msg": f"{label}: bystanders that answered {who}, expected {exp}"})

        if entry == "load":
            obs["load_time_faults"] += 1
            obs["faults_injected"] += 1
            check_report(reports(w, 0) and [r for r in reports(w, 0) if "Failed to load" not in r["msg"]], "load")
            if viol:
                return
            if GlobalContextMgr.get("file.x") is not None:
                viol.append({"mech": "faulty_file_left_loaded", "msg": "file.x still registered after its load failed"})
                return
            if GlobalContextMgr.get("file.y") is None:
                viol.append({"mech": "other_file_not_loaded", "msg": "file.y missing"})
                return
            await bystanders("after load fault", expect_x=False)
            if viol:
                return
            # a reload reports it again, once
            n0 = len(w.logtap.records)
            await w.reload()
            obs["faults_injected"] += 1
            check_report([r for r in reports(w, n0) if "Failed to load" not in r["msg"]], "reload")
            await bystanders("after reload", expect_x=False)
            return

        n_err0 = len(w.logtap.records)
        if entry == "startup":
            # the startup run (boom=1 by default) has already faulted during setup
            obs["faults_injected"] += 1
            check_report(reports(w, 0), "startup run")
            if viol:
                return
        else:
            early = reports(w, 0)
            if early:
                viol.append({"mech": "unexpected_error_log", "msg": str([(r["name"], r["msg"][:300]) for r in early[:2]])})
                return
        await bystanders("before")
        if viol:
            return
        for rnd, boom in enumerate([1, 0, 1, 0]):
            n0, r0 = len(w.logtap.records), len(w.rec)
            await trigger(w, boom)
            recs = reports(w, n0)
            served = [r for r in w.rec[r0:] if r["tag"] == "served"]
            if boom:
                obs["faults_injected"] += 1
                if is_expr:
                    obs["expression_faults"] += 1
                check_report(recs, f"occurrence {rnd} (faulting)")
                if not viol and served:
                    viol.append({"mech": "function_continued_past_fault", "msg": f"occurrence {rnd}: {served}"})
            else:
                if recs:
                    viol.append({"mech": "unexpected_error_log", "msg": f"occurrence {rnd} (clean): {[(r['name'], r['msg'][:300]) for r in recs[:2]]}"})
                elif len(served) != 1:
                    viol.append({"mech": "trigger_stopped_serving", "msg": f"occurrence {rnd} (clean) after a fault: served {len(served)} times"})
                else:
                    obs["later_occurrences_served"] += 1
            if viol:
                return
            if entry == "done_cb" and len([r for r in w.rec[r0:] if r["tag"] == "after_cb"]) != 1:
                viol.append({"mech": "callback_fault_disturbed_other_callback", "msg": f"occurrence {rnd}: the done-callback registered after the faulting one ran {len([r for r in w.rec[r0:] if r['tag'] == 'after_cb'])} times"})
                return
            if entry == "done_cb" and not [r for r in w.rec[r0:] if r["tag"] == "starter_done"]:
                viol.append({"mech": "callback_fault_disturbed_waiter", "msg": f"occurrence {rnd}: the function waiting for the task did not finish"})
                return
        await bystanders("after")

    kw = {}
    if entry == "mqtt":
        kw["mqtt"] = True
    if entry == "webhook":
        kw["webhook"] = True

    def pre(w):
        w.hass.states.async_set("pyscript.d", "1")
        w.hass.states.async_set("pyscript.go", "0")

    w, _ = run_world(main, files=files, legacy=case["legacy"], pre_setup=pre, keep=True, **kw)
    foreign = [r for r in w.logtap.records if r["level"] in ("ERROR", "CRITICAL") and not r["name"].startswith("custom_components.pyscript")]
    if foreign and not viol:
        viol.append({"mech": "error_reached_home_assistant_logger", "msg": str([(r["name"], r["msg"][:300]) for r in foreign[:2]])})
    if w.escapes and not viol:
        viol.append({"mech": "exception_escaped_into_event_loop", "msg": str(w.escapes[:2])[:800]})
    obs["entry_kinds_seen"] = 1
    obs["exception_kinds_seen"] = 1
    obs["site_kinds_seen"] = len(set(g.sites_used))
    obs["link_kinds_seen"] = len(set(kinds))
    feats = sorted(set(g.sites_used) | set(kinds) | ({"stopiteration"} if "Stop" in str(g.exc_kind) else set()))
    return {
        "verdict": "violated" if viol else "held",
        "violations": [dict(v, features=feats) for v in viol[:2]],
        "nontrivial": True,
        "obs": dict(obs, legacy_cases=int(case["legacy"]), default_cases=int(not case["legacy"])),
        "cover": cover,
        "unit_keys": [f"entry:{entry}", f"exc:{g.exc_kind}"] + [f"site:{s}" for s in set(g.sites_used)] + [f"link:{k}" for k in set(kinds)],
        "sig": f"{entry}|{'-'.join(kinds)}|{'-'.join(g.sites_used)}|{g.exc_kind}|{case['legacy']}",
    }


def sample(case, res):
    g, kinds, files = build_case(case)
    return {"entry": case["entry"], "legacy": case["legacy"], "links": kinds, "x.py": files["x.py"][-1800:]}
