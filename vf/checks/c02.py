"""C02 — control flow and exception handling follow Python's paths exactly (CPython differential)."""

from __future__ import annotations

import hashlib
import itertools
import random

ID = "C02"
LEVEL = "exploration"
BUDGET = {"quick": 50, "thorough": 900}
QUICK_CASES = 2000  # generator items in the quick tier (fixed amount of work; BUDGET is then only a safety cap)
FLOOR = {"quick": 30000, "thorough": 30000}  # conclusive cases below which a run is inconclusive (the thorough tier is time-budgeted: same floor)
TIMEOUT = 120
REQUIRED_OBS = ["programs_compared", "tracer_events", "exceptions_agreed", "enumerated_programs"]
RULE = (
    "control-flow skeletons wrapped in `def w(): ...; r = w()`: (a) exhaustive depth 2: every outer construct x slot x inner construct x "
    "slot x jump {fall-through, break, continue, return, raise EA/EB/EC/KeyError, bare raise, raise-from, assert} over {if, for, for-else, "
    "while, while-else, try-except, try-finally, try-except-else-finally, with (1-2 managers, suppressing or not), nested def}, handlers incl. an `except` "
    "expression whose value changes at every evaluation; (b) random "
    "skeletons to depth 3-5 with random handler clauses, loop counts 0-3, failing __enter__/__exit__; compared with CPython: tracer log "
    "(incl. __enter__/__exit__ calls with the exception type they saw), returned value, exception type, final globals. Non-trivial: "
    "nesting >= 2 constructs and >= 3 tracer events; distinct by source hash."
)
ASSUMPTIONS = [
    "only skeletons CPython compiles; BaseException subclasses are raised only by the tracer budget guard",
    "__context__/__cause__ chains are not compared here (C18)",
    "loops are bounded by construction (range(k), counter incremented first) and by a 400-event tracer budget",
]
BATCH_N = 200
EXHAUSTIVE_SUBSPACES = {
    "quick": ["depth-2 skeletons: outer construct x slot x inner construct x slot x jump (vf.gen.flow.enumerate_depth2), complete"],
    "thorough": ["depth-2 skeletons: outer construct x slot x inner construct x slot x jump x 3 handler clause variants, complete"],
}


def warm():
    from ..warm import warm as _w

    _w()


def generate(tier, seed, gated=frozenset()):
    from ..gen.flow import enumerate_depth2

    n = sum(1 for _ in enumerate_depth2())
    variants = [0] if tier == "quick" else [0, 1, 2]
    for hv in variants:
        for start in range(0, n, 500):
            yield {"stream": "enum", "start": start, "count": min(500, n - start), "hv": hv}
    i = 0
    while True:
        yield {"stream": "random", "seed": f"C02-{tier}-{seed}-{i}", "count": BATCH_N, "depth": 3 if tier == "quick" else 5}
        i += 1


def programs_of(case):
    from ..gen import flow

    if case["stream"] == "single":
        return [(p, {"nodes": ["x", "y"]}) for p in case["programs"]]
    out = []
    if case["stream"] == "enum":
        hs = ["except EA:", "except (EC, EA) as e:", "except Exception as e:"]
        h = hs[case.get("hv", 0)]
        for tree in itertools.islice(flow.enumerate_depth2(lambda o: h), case["start"], case["start"] + case["count"]):
            src, nodes = flow.render(tree)
            out.append((src, {"nodes": nodes}))
        return out
    rng = random.Random(case["seed"])
    for _ in range(case["count"]):
        tree = flow.rand_block(rng, rng.randint(1, case["depth"]))
        src, nodes = flow.render(tree)
        out.append((src, {"nodes": nodes}))
    return out


def run_case(case):
    from .. import interp

    progs = programs_of(case)
    viol = []
    obs = {"programs_compared": 0, "tracer_events": 0, "exceptions_agreed": 0, "enumerated_programs": 0, "discarded_by_cpython_compiler": 0, "budget_hits": 0}
    unit_keys, nontrivial = [], []
    cover = {"constructs": {}, "outcomes": {}}

    async def main(w):
        for src, meta in progs:
            py = interp.run_cpython(src)
            if "compile_error" in py:
                obs["discarded_by_cpython_compiler"] += 1
                continue
            ps = await interp.run_pyscript(src)
            obs["programs_compared"] += 1
            obs["enumerated_programs"] += int(case["stream"] == "enum")
            obs["tracer_events"] += len(py["log"])
            obs["budget_hits"] += int(py["exc"] == "Budget")
            key = hashlib.sha1(src.encode()).hexdigest()[:12]
            unit_keys.append(key)
            if len(meta["nodes"]) >= 2 and len(py["log"]) >= 3:
                nontrivial.append(key)
            for nt in meta["nodes"]:
                cover["constructs"][nt] = cover["constructs"].get(nt, 0) + 1
            oc = py["exc"] or "returned"
            cover["outcomes"][oc] = cover["outcomes"].get(oc, 0) + 1
            diffs = interp.compare(py, ps)
            if py["exc"] and not diffs:
                obs["exceptions_agreed"] += 1
            if diffs:
                viol.append(
                    {
                        "mech": case.get("_witness_of") or f"diff_{diffs[0][0]}",
                        "msg": f"{diffs[0][1]}\n--- program ---\n{src}",
                        "replay_case": {"stream": "single", "programs": [src]},
                    }
                )

    interp.run_batch_in_world(main)
    return {
        "verdict": "violated" if viol else "held",
        "violations": viol[:40],
        "units": max(1, obs["programs_compared"]),
        "unit_keys": unit_keys,
        "nontrivial_keys": nontrivial,
        "nontrivial": bool(nontrivial),
        "obs": obs,
        "cover": cover,
    }


def sample(case, res):
    ps = programs_of(case)
    return {"stream": case["stream"], "programs": [p for p, _ in ps[:2]]}
