"""C07 — @state_active / @time_active / hold_off gate every trigger correctly."""

from __future__ import annotations

import datetime as dt
import random

from .. import stexpr as X
from ..oracle import timespec as TS

ID = "C07"
LEVEL = "exploration"
BUDGET = {"quick": 55, "thorough": 900}
QUICK_CASES = 3000  # generator items in the quick tier (fixed amount of work; BUDGET is then only a safety cap)
FLOOR = {"quick": 20000, "thorough": 20000}  # conclusive cases below which a run is inconclusive (the thorough tier is time-budgeted: same floor)
TIMEOUT = 90
REQUIRED_OBS = ["matcher_queries", "guarded_cases", "occurrences", "accepted", "rejected_time_active", "rejected_state_active", "rejected_hold_off", "direct_calls", "transient_watchers", "state_hold_guarded_cases", "two_triggers_of_one_type_cases"]
RULE = (
    "(B) TrigTime.timer_active_check on lists of <= 4 positive/negated range()/cron() specifications (daily, dated, weekday, sunrise/sunset, "
    "now-relative, wrapping midnight) at times incl. every end point -1us/exact/+1us, against an independent window matcher; (A) the real "
    "decorator path on the virtual clock, both subsystems: one state / event / time trigger + @time_active (0-4 specs, hold_off None/0/N) "
    "and/or @state_active (expressions over the triggering entity incl. .old and a guard-only entity) with occurrences at chosen instants "
    "(once(T) time triggers exactly on range end points); (C) direct calls of the guarded function and guard-only entity changes. Oracle: "
    "(any positive window or none) and no negated window; range end points inclusive; wrap when end < start; hold_off counted from the last "
    "occurrence that actually ran. Non-trivial: >= 1 occurrence accepted and >= 1 rejected."
)
ASSUMPTIONS = [
    "events and state changes are >= 1 s away from every window edge; exact edges are exercised through once(T) time triggers and the direct matcher",
    "cron() in @time_active matches whole minutes (any second inside the minute)",
    "@state_active on non-state triggers is evaluated on current state values",
]
BASE = dt.datetime(2024, 5, 15, 10, 0, 0)  # local wall clock at trigger start (a Wednesday)


def warm():
    from ..warm import warm as _w

    _w()


# ------------------------------------------------------------------ window structures
def hm(minutes):
    return ["hms", (minutes // 60) % 24, minutes % 60, None, None]


def gen_window(rng, around=True):
    """A range()/cron() structure.  With around=True it is placed near BASE (10:00-12:00)."""
    k = rng.random()
    if k < 0.45:
        a = 600 + rng.randint(-30, 110)
        b = a + rng.randint(1, 60)
        return {"k": "range", "start": {"date": None, "time": hm(a), "offset": None}, "end": {"date": None, "time": hm(b), "offset": None}}
    if k < 0.6:
        # wraps midnight: start in the evening (or late morning), end next morning
        a = rng.choice([23 * 60, 22 * 60 + 30, 11 * 60 + rng.randint(0, 50)])
        b = 600 + rng.randint(-20, 60)
        return {"k": "range", "start": {"date": None, "time": hm(a), "offset": None}, "end": {"date": None, "time": hm(b), "offset": None}}
    if k < 0.7:
        return {"k": "range", "start": {"date": ["full", 2024, 5, rng.choice([14, 15])], "time": hm(600 + rng.randint(-60, 60)), "offset": None}, "end": {"date": ["full", 2024, 5, rng.choice([15, 16])], "time": hm(600 + rng.randint(0, 100)), "offset": None}}
    if k < 0.78:
        d = rng.choice([2, 3, 4])  # tue / wed / thu ; BASE is a wednesday
        return {"k": "range", "start": {"date": ["dow", d, rng.random() < 0.5], "time": hm(600 + rng.randint(-30, 30)), "offset": None}, "end": {"date": ["dow", d, False], "time": hm(600 + rng.randint(31, 110)), "offset": None}}
    if k < 0.81:
        # only the start carries a weekday / date: the end (a bare time) belongs to the start's day
        date = rng.choice([["dow", rng.choice([2, 3, 4]), False], ["full", 2024, 5, rng.choice([14, 15, 16])]])
        a = 600 + rng.randint(-60, 60)
        return {"k": "range", "start": {"date": date, "time": hm(a), "offset": None}, "end": {"date": None, "time": hm(a + rng.randint(5, 110)), "offset": None}}
    if k < 0.84:
        return {"k": "range", "start": {"date": None, "time": ["sunrise"], "offset": rng.choice([None, ["+", 2, "h", "h", " "]])}, "end": {"date": None, "time": ["sunset"], "offset": rng.choice([None, ["-", 9, "h", "hours", " "]])}}
    if k < 0.9:
        return {"k": "range", "start": {"date": None, "time": ["now"], "offset": ["+", rng.randint(1, 40), "m", "min", " "]}, "end": {"date": None, "time": ["now"], "offset": ["+", rng.randint(41, 100), "m", "min", " "]}}
    m = rng.choice(["*", ["step", 2], ["step", 5], ["list", [[10, 40]]], ["list", [0, 15, 30, 45]]])
    h = rng.choice(["*", ["list", [10]], ["list", [11]], ["list", [[9, 10]]]])
    return {"k": "cron", "fields": [m, h, "*", "*", rng.choice(["*", ["list", [3]], ["list", [1, 2]]])]}


def render_window(w):
    if w["k"] == "cron":
        return "cron(" + " ".join(TS.render_field(f) for f in w["fields"]) + ")"
    return f"range({TS.render_dt(w['start'])}, {TS.render_dt(w['end'])})"


def window_edges(w, now, startup, sun):
    if w["k"] == "cron":
        return []
    s, e = range_bounds(w, now, startup, sun)
    return [s, e]


def range_bounds(w, now, startup, sun):
    """start is resolved relative to now's date, end relative to start's date (reference.rst: range)."""

    def resolve(d, ref):
        t = d.get("time")
        off = dt.timedelta(seconds=TS.offset_seconds(d.get("offset")))
        if t and t[0] == "now":
            return startup + off
        date = d.get("date")
        if date is None:
            day = ref.date()
        elif date[0] == "full":
            day = dt.date(date[1], date[2], date[3])
        elif date[0] == "dow":
            delta = (date[1] - (ref.isoweekday() % 7)) % 7
            day = ref.date() + dt.timedelta(days=delta)
        else:
            raise ValueError(date)
        return TS.time_of(t, day, sun) + off

    s = resolve(w["start"], now)
    e = resolve(w["end"], s)
    return s, e


def window_match(w, now, startup, sun):
    if w["k"] == "cron":
        f = w["fields"]
        dows = {v % 7 for v in TS.field_values(f[4], 0, 6)}
        return (
            now.minute in TS.field_values(f[0], 0, 59)
            and now.hour in TS.field_values(f[1], 0, 23)
            and now.day in TS.field_values(f[2], 1, 31)
            and now.month in TS.field_values(f[3], 1, 12)
            and (now.isoweekday() % 7) in dows
        )
    s, e = range_bounds(w, now, startup, sun)
    if s <= e:
        return s <= now <= e
    return now >= s or now <= e


def active(specs, now, startup, sun):
    pos = [window_match(s["w"], now, startup, sun) for s in specs if not s["neg"]]
    neg = [window_match(s["w"], now, startup, sun) for s in specs if s["neg"]]
    return (any(pos) if pos else True) and not any(neg)


def render_specs(specs):
    return [("not " if s["neg"] else "") + render_window(s["w"]) for s in specs]


def gen_specs(rng, nmax=4):
    return [{"neg": rng.random() < 0.35, "w": gen_window(rng)} for _ in range(rng.choice([1, 1, 2, 2, 3, nmax]))]


# ------------------------------------------------------------------ cases
def generate(tier, seed, gated=frozenset()):
    i = 0
    while True:
        yield {"part": "B", "seed": f"C07B-{tier}-{seed}-{i}", "count": 120}
        for j in range(6):
            for legacy in (False, True):
                yield {"part": "A", "seed": f"C07A-{tier}-{seed}-{i}-{j}", "legacy": legacy}
        i += 1


def make_sun(hass):
    from homeassistant.helpers import sun as ha_sun

    loc = ha_sun.get_astral_location(hass)
    loc = loc[0] if isinstance(loc, tuple) else loc
    cache = {}

    def sun(kind, date):
        key = (kind, date)
        if key not in cache:
            x = (loc.sunrise if kind == "sunrise" else loc.sunset)(date)
            cache[key] = dt.datetime(x.year, x.month, x.day, x.hour, x.minute, x.second) + (date - x.date())
        return cache[key]

    return sun


def run_part_b(case):
    from .. import interp

    rng = random.Random(case["seed"])
    viol = []
    obs = {k: 0 for k in REQUIRED_OBS}
    unit_keys, nontrivial = [], []
    cover = {"window_forms": {}, "answers": {}}

    async def main(w):
        from custom_components.pyscript.trigger import TrigTime

        sun = make_sun(w.hass)
        for _ in range(case["count"]):
            specs = gen_specs(rng)
            strs = render_specs(specs)
            startup = BASE - dt.timedelta(seconds=rng.choice([0, 5, 1800]))
            for s in specs:
                f = s["w"]["k"] + (":neg" if s["neg"] else "")
                cover["window_forms"][f] = cover["window_forms"].get(f, 0) + 1
            nows = [BASE + dt.timedelta(seconds=rng.randint(-3600, 3 * 3600), microseconds=rng.choice([0, 1, 999999]))]
            for s in specs:
                for e in window_edges(s["w"], BASE, startup, sun):
                    nows += [e - dt.timedelta(microseconds=1), e, e + dt.timedelta(microseconds=1)]
            for now in nows[:14]:
                want = active(specs, now, startup, sun)
                arg = strs if (len(strs) > 1 or rng.random() < 0.5) else strs[0]
                got = await TrigTime.timer_active_check(arg, now, startup)
                obs["matcher_queries"] += 1
                key = f"{strs}|{now.isoformat()}"
                unit_keys.append(key)
                if len(specs) > 1 or now != nows[0]:
                    nontrivial.append(key)
                cover["answers"][str(want)] = cover["answers"].get(str(want), 0) + 1
                if bool(got) != want:
                    viol.append({"mech": "time_active_wrong_answer", "msg": f"timer_active_check({strs}, now={now}, startup={startup}) = {got}, oracle {want}", "replay_case": {"part": "Bone", "specs": specs, "now": now.isoformat(), "startup": startup.isoformat()}})

    interp.run_batch_in_world(main, start=_utc_of(BASE))
    return {"verdict": "violated" if viol else "held", "violations": viol[:30], "units": max(1, obs["matcher_queries"]), "unit_keys": unit_keys, "nontrivial_keys": nontrivial, "nontrivial": True, "obs": obs, "cover": cover}


def run_part_b_one(case):
    from .. import interp

    out = {}

    async def main(w):
        from custom_components.pyscript.trigger import TrigTime

        sun = make_sun(w.hass)
        now, startup = dt.datetime.fromisoformat(case["now"]), dt.datetime.fromisoformat(case["startup"])
        out["want"] = active(case["specs"], now, startup, sun)
        out["got"] = await TrigTime.timer_active_check(render_specs(case["specs"]), now, startup)

    interp.run_batch_in_world(main, start=_utc_of(BASE))
    viol = []
    if bool(out["got"]) != out["want"]:
        viol.append({"mech": case.get("_witness_of") or "time_active_wrong_answer", "msg": f"{render_specs(case['specs'])} now={case['now']}: {out['got']} vs oracle {out['want']}"})
    return {"verdict": "violated" if viol else "held", "violations": viol, "nontrivial": True, "obs": {"matcher_queries": 1}}


def _utc_of(local):
    import zoneinfo

    return local.replace(tzinfo=zoneinfo.ZoneInfo("US/Pacific")).astimezone(dt.timezone.utc).replace(tzinfo=None)


def gen_guarded(rng):
    kind = rng.choice(["event", "state", "time", "event", "state"])
    specs = gen_specs(rng, 4) if rng.random() < 0.8 else []
    hold_off = rng.choice([None, None, 0, 20.5, 90.5, 400.5])  # never a sum of the integer gaps: no ties
    sa = None
    if rng.random() < 0.5:
        k = rng.random()
        if k < 0.4:
            sa = ["eq", "pyscript.g0", rng.choice(["on", "off"])]
        elif k < 0.7 and kind == "state":
            # the last alternative is a bare attribute: 0 / 1, falsy / truthy without being False / True
            sa = ["and", ["ne", "pyscript.e0", "off"], rng.choice([["old_eq", "pyscript.e0", "on"], ["ne", "pyscript.e0", "zz"], ["attr_eq", "pyscript.e0", "a1", 1], ["attr_val", "pyscript.e0", "a1"]])]
        else:
            sa = ["or", ["eq", "pyscript.g0", "on"], ["eq", "pyscript.e0", "home"]]
    order = rng.random() < 0.5  # True: @time_active listed above @state_active
    occ = []
    if kind == "time":
        # once(T) triggers: some exactly on range end points (resolved relative to BASE), some elsewhere
        times = set()
        for s in specs:
            if s["w"]["k"] == "range" and all((d.get("time") or [""])[0] == "hms" and not d.get("date") for d in (s["w"]["start"], s["w"]["end"])):
                for d in (s["w"]["start"], s["w"]["end"]):
                    mins = d["time"][1] * 60 + d["time"][2]
                    if 600 < mins < 600 + 170:
                        times.add(mins * 60)
        for _ in range(rng.randint(2, 5)):
            times.add((600 + rng.randint(1, 170)) * 60 + rng.choice([0, 0, 30]))
        for t in sorted(times)[:8]:
            occ.append({"t": t - 600 * 60, "kind": "time", "sec": t})
    else:
        t = 0
        for _ in range(rng.randint(6, 16)):
            t += rng.choice([7, 15, 45, 130, 400, 900])
            if t > 170 * 60:
                break
            occ.append({"t": t, "kind": kind, "v": rng.choice(["on", "off", "home", "x"]), "a1": rng.choice([0, 1])})
    # guard-only entity changes and direct calls in between
    extra = []
    for _ in range(rng.randint(1, 4)):
        extra.append({"t": rng.randint(1, 170 * 60), "kind": "guard", "v": rng.choice(["on", "off"])})
    for _ in range(rng.randint(0, 2)):
        extra.append({"t": rng.randint(1, 170 * 60), "kind": "direct"})
    # a second, far-away time trigger on the same function puts the (legacy) trigger loop into its timed wait
    far = kind != "time" and rng.random() < 0.35
    # a transient watcher of the guard-only entity through an attribute name: after it is gone the guard must still see
    # the current value of that entity (no stale notification cache)
    tw = rng.random() < 0.35
    if tw:
        ts = sorted(rng.sample(range(5, 120 * 60), 3))
        extra.append({"t": ts[0], "kind": "tw_start"})
        extra.append({"t": ts[1], "kind": "guard", "v": rng.choice(["on", "off"]), "a9": 0})
        extra.append({"t": ts[2], "kind": "guard", "v": rng.choice(["on", "off"]), "a9": 1})
        for _ in range(rng.randint(1, 3)):
            extra.append({"t": rng.randint(ts[2] + 1, 170 * 60), "kind": "guard", "v": rng.choice(["on", "off"])})
    # state_hold on the guarded state trigger: the guard is judged on the values of the change that started the hold
    state_hold = None
    if kind == "state" and rng.random() < 0.3:
        state_hold, specs, hold_off, far = 10.5, [], None, False
        sa = ["and", ["ne", "pyscript.e0", "off"], rng.choice([["old_eq", "pyscript.e0", "on"], ["ne", "pyscript.e0", "x"], ["attr_eq", "pyscript.e0", "a1", 1], ["old_attr_eq", "pyscript.e0", "a1", 1]])]
    # two triggers of the same type on one function: every one of them is guarded
    second = kind == "event" and rng.random() < 0.35
    if second:
        hold_off = None  # (whether hold_off is shared between the triggers of one function is not stated)
        for o in occ:
            o["which"] = rng.choice([0, 1])
    return {"kind": kind, "specs": specs, "hold_off": hold_off, "sa": sa, "order": order, "occ": occ, "extra": extra, "g0": rng.choice(["on", "off"]), "far": far, "tw": tw, "state_hold": state_hold, "second": second}


def render_guarded(g):
    lines = []
    if g.get("far"):
        lines.append("@time_trigger('once(23:30:00)')")
    if g["kind"] == "event":
        lines.append("@event_trigger('ev7')")
        if g.get("second"):
            lines.append("@event_trigger('ev7b')")
    elif g["kind"] == "state":
        lines.append("@state_trigger('pyscript.e0', 'pyscript.e0.a1'" + (f", state_hold={g['state_hold']}" if g.get("state_hold") else "") + ")")
    else:
        specs = ", ".join(repr(f"once({o['sec'] // 3600}:{(o['sec'] // 60) % 60:02d}:{o['sec'] % 60:02d})") for o in g["occ"])
        lines.append(f"@time_trigger({specs})")
    ta = None
    if g["specs"] or g["hold_off"] is not None:
        args = [repr(s) for s in render_specs(g["specs"])]
        if g["hold_off"] is not None:
            args.append(f"hold_off={g['hold_off']}")
        ta = f"@time_active({', '.join(args)})"
    sa = f"@state_active({X.render(g['sa'])!r})" if g["sa"] else None
    for d in ([ta, sa] if g["order"] else [sa, ta]):
        if d:
            lines.append(d)
    lines.append("def guarded(**kw):")
    lines.append("    vf.rec('run', kw=kw)")
    lines.append("")
    lines.append("@service")
    lines.append("def call_direct():")
    lines.append("    guarded(trigger_type='direct')")
    if g.get("tw"):
        lines += ["", "@event_trigger('tw7')", "def transient(**kw):", "    r = task.wait_until(state_trigger='pyscript.g0.a9 == 1', timeout=100000)", "    vf.rec('tw', r=r.get('trigger_type'))"]
    return "\n".join(lines) + "\n"


def run_part_a(case):
    from ..sim import run_world

    rng = random.Random(case["seed"])
    g = gen_guarded(rng)
    script = render_guarded(g)
    state = {}

    def pre(w):
        w.hass.states.async_set("pyscript.g0", g["g0"], {"a9": 0})
        w.hass.states.async_set("pyscript.e0", "init", {"a1": 0})

    async def main(w):
        from homeassistant.core import Context

        state["sun"] = make_sun(w.hass)
        state["startup"] = w.clock.local_naive()
        todo = sorted([(o["t"], i, o) for i, o in enumerate(g["occ"] + g["extra"])], key=lambda x: (x[0], x[1]))
        for t, i, o in todo:
            await w.at(t + (0.0 if o["kind"] == "time" else 0.37))
            if o["kind"] == "time":
                continue
            ctx = Context(id=f"o{i}")
            o["at"] = w.clock.local_naive()
            o["g0"] = w.hass.states.get("pyscript.g0").state
            if o["kind"] == "event":
                w.hass.bus.async_fire("ev7b" if o.get("which") else "ev7", {"i": i}, context=ctx)
            elif o["kind"] == "state":
                st = w.hass.states.get("pyscript.e0")
                o["old"] = {"s": st.state, "a": dict(st.attributes)}
                w.hass.states.async_set("pyscript.e0", o["v"], {"a1": o["a1"]}, context=ctx)
            elif o["kind"] == "guard":
                w.hass.states.async_set("pyscript.g0", o["v"], {"a9": o.get("a9", 0)}, context=ctx)
            elif o["kind"] == "tw_start":
                w.hass.bus.async_fire("tw7", {})
            elif o["kind"] == "direct":
                await w.hass.services.async_call("pyscript", "call_direct", {}, blocking=True)
            await w.settle()
        await w.at(175 * 60)

    w, _ = run_world(main, files={"c07.py": script}, legacy=case["legacy"], tick=rng.choice([1e-6, 5e-6, 5e-5]), start=_utc_of(BASE), pre_setup=pre, keep=True)
    sun, startup = state["sun"], state["startup"]
    runs = [r for r in w.rec if r["tag"] == "run"]
    direct = [r for r in runs if r["kw"].get("trigger_type") == "direct"]
    trig_runs = [r for r in runs if r["kw"].get("trigger_type") != "direct"]
    # model: walk occurrences in time order
    g0 = g["g0"]
    e0 = {"s": "init", "a": {"a1": 0}}
    last_accept = None
    expected = []
    stats = {"acc": 0, "rta": 0, "rsa": 0, "rho": 0}
    timeline = sorted([(o["t"], i, o) for i, o in enumerate(g["occ"] + g["extra"])], key=lambda x: (x[0], x[1]))
    pending = None  # state_hold: (expiry offset, ident, old, new)

    def expire(upto):
        nonlocal pending
        if pending is not None and pending[0] <= upto:
            _, ident_, old_, new_ = pending
            pending = None
            env_ = {"pyscript.g0": {"s": g0, "a": {}}, "pyscript.e0": new_}
            if bool(X.truth(g["sa"], env_, "pyscript.e0", old_)):
                stats["acc"] += 1
                expected.append(ident_)
            else:
                stats["rsa"] += 1

    for t, i, o in timeline:
        if g.get("state_hold"):
            expire(t + 0.37)
        if o["kind"] == "guard":
            g0 = o["v"]
            continue
        if o["kind"] in ("direct", "tw_start"):
            continue
        if g.get("state_hold"):
            old, new = e0, {"s": o["v"], "a": {"a1": o["a1"]}}
            if old == new:
                continue
            e0 = new
            if pending is None:
                pending = (t + 0.37 + g["state_hold"], f"o{i}", old, new)
            continue
        if o["kind"] == "time":
            when = dt.datetime(BASE.year, BASE.month, BASE.day) + dt.timedelta(seconds=o["sec"])
            old = new = e0
            ident = str(when)
        else:
            when = o["at"]
            ident = f"o{i}"
            if o["kind"] == "state":
                old = e0
                new = {"s": o["v"], "a": {"a1": o["a1"]}}
                if old == new:
                    continue  # no state_changed event at all
                e0 = new
            else:
                old = new = e0
        sa_ok = True
        if g["sa"]:
            env = {"pyscript.g0": {"s": g0, "a": {}}, "pyscript.e0": new}
            sa_ok = bool(X.truth(g["sa"], env, "pyscript.e0" if o["kind"] == "state" else None, old if o["kind"] == "state" else None))
        ta_ok = active(g["specs"], when, startup, sun) if g["specs"] else True
        t_mono = (when - startup).total_seconds()
        if not ta_ok:
            stats["rta"] += 1
            continue
        if not sa_ok:
            stats["rsa"] += 1
            continue
        if g["hold_off"] and last_accept is not None and t_mono - last_accept < g["hold_off"]:
            stats["rho"] += 1
            continue
        last_accept = t_mono
        stats["acc"] += 1
        expected.append(ident)
    if g.get("state_hold"):
        expire(10**9)
    tw_done = [r for r in w.rec if r["tag"] == "tw"]
    got = []
    for r in trig_runs:
        kw = r["kw"]
        if kw.get("trigger_type") == "time":
            got.append(str(dt.datetime.fromisoformat(kw["trigger_time"])) if kw.get("trigger_time") not in (None, "startup") else "startup")
        else:
            got.append(kw.get("context"))
    viol = []
    desc = f"legacy={case['legacy']} script=\n{script}"
    if got != expected:
        miss = [x for x in expected if x not in got]
        unex = [x for x in got if x not in expected]
        if unex and not miss:
            mech = "ran_although_guard_forbids"
        elif miss and not unex:
            mech = "did_not_run_although_guards_allow"
        else:
            mech = "guarded_runs_differ"
        viol.append({"mech": mech, "msg": f"missing={miss[:5]} unexpected={unex[:5]} expected={expected[:10]} got={got[:10]} hold_off={g['hold_off']} {desc}"})
    if g.get("tw") and [r.get("r") for r in tw_done] != ["state"]:
        viol.append({"mech": "transient_watcher_did_not_return", "msg": f"{tw_done}; {desc}"})
    n_direct = sum(1 for o in g["extra"] if o["kind"] == "direct")
    if len(direct) != n_direct:
        viol.append({"mech": "direct_call_blocked_by_guard", "msg": f"{n_direct} direct calls, {len(direct)} ran; {desc}"})
    errs = w.logs(level="ERROR")
    if errs:
        viol.append({"mech": "unexpected_error_log", "msg": str(errs[:2])[:900]})
    if w.escapes:
        viol.append({"mech": "escaped_exception", "msg": str(w.escapes[:2])[:900]})
    feats = []
    if len(g["specs"]) > 1:
        feats.append("time_active_several_specs")
    return {
        "verdict": "violated" if viol else "held",
        "violations": viol,
        "features": feats,
        "nontrivial": stats["acc"] > 0 and (stats["rta"] + stats["rsa"] + stats["rho"]) > 0,
        "obs": {
            "guarded_cases": 1,
            "occurrences": len(g["occ"]),
            "accepted": stats["acc"],
            "rejected_time_active": stats["rta"],
            "rejected_state_active": stats["rsa"],
            "rejected_hold_off": stats["rho"],
            "direct_calls": n_direct,
            "transient_watchers": int(bool(g.get("tw"))),
            "state_hold_guarded_cases": int(bool(g.get("state_hold"))),
            "two_triggers_of_one_type_cases": int(bool(g.get("second"))),
            "legacy_cases": int(case["legacy"]),
            "default_cases": int(not case["legacy"]),
        },
        "cover": {"trigger_kinds": [g["kind"] + ("+far_time_trigger" if g.get("far") else "")], "guards": [("ta" if g["specs"] else "") + ("+ho" if g["hold_off"] else "") + ("+sa" if g["sa"] else "")]},
        "sig": f"{g['kind']}|{len(g['specs'])}|{g['hold_off']}|{bool(g['sa'])}|{case['legacy']}|{stats}",
    }


def run_case(case):
    if case["part"] == "B":
        return run_part_b(case)
    if case["part"] == "Bone":
        return run_part_b_one(case)
    return run_part_a(case)


def sample(case, res):
    rng = random.Random(case["seed"])
    if case["part"] == "B":
        return {"part": "B", "specs": [render_specs(gen_specs(rng)) for _ in range(3)]}
    if case["part"] == "A":
        g = gen_guarded(rng)
        return {"part": "A", "legacy": case["legacy"], "script": render_guarded(g), "occurrences": g["occ"][:5]}
    return case
