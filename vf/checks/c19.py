"""C19 — Jupyter kernel: lossless framing, authenticated requests, correlated replies."""

from __future__ import annotations

import asyncio
import hashlib
import hmac
import itertools
import json
import random
import struct
import uuid

ID = "C19"
LEVEL = "exploration"
BUDGET = {"quick": 50, "thorough": 600}
QUICK_CASES = 1000  # generator items in the quick tier (fixed amount of work; BUDGET is then only a safety cap)
FLOOR = {"quick": 20000, "thorough": 20000}  # conclusive cases below which a run is inconclusive (the thorough tier is time-budgeted: same floor)
TIMEOUT = 120
REQUIRED_OBS = ["frame_lists", "fragmentations", "exhaustive_fragmentations", "sessions", "requests_sent", "replies_verified", "iopub_brackets_verified", "results_checked", "errors_checked", "stdout_checked", "corrupted_requests", "corruptions_rejected", "second_subscriber_sessions", "two_front_end_sessions", "slow_subscriber_sessions"]
RULE = (
    "(A) ZmqSocket over in-memory streams: lists of 1-8 byte frames with lengths in {0, 1, 254, 255, 256, 257, 65535, 65536} and random, "
    "random contents, optionally with command frames in between, written by send / send_multipart and re-read by recv / recv_multipart "
    "under ALL fragmentations of the byte stream when it is <= 13 bytes long and under 1-byte dribble, every two-way split and random cuts "
    "otherwise. (B) a real kernel session started by the pyscript.jupyter_kernel_start service with asyncio.start_server replaced by an "
    "in-memory acceptor: sequences of execute / complete / is_complete / kernel_info / comm_info / history requests with generated cells "
    "(expressions, assignments, print, raising cells), random identities, random fragmentation; an independent ZMTP decoder + hmac checks "
    "every reply (exactly one per request id, signature, identities, parent header, reply type), the iopub busy...idle bracket, "
    "execution_count sequence, execute_result text vs CPython repr, error ename, stdout text. (C) corrupted requests: every single-character "
    "change of the signature, empty / truncated / wrong-key signatures, a flipped byte in each frame, dropped frames: never executed (marker "
    "absent from the session's globals) and never answered. Non-trivial: a frame at a length boundary / >= 3 requests incl. an error cell / "
    "any corruption."
)
ASSUMPTIONS = [
    "the transport is replaced by in-memory streams (same asyncio StreamReader API as TCP); real kernel-socket fragmentation is not reproduced",
    "the empty frame list is not sent (ZMTP has no zero-frame message)",
    "stdout is observed with the session logger at DEBUG (print() maps to logger.debug)",
]
BOUNDARY = [0, 1, 2, 254, 255, 256, 257, 65535, 65536]
KEY = "c0ffee-key-123"


def warm():
    from ..warm import warm as _w

    _w()


def generate(tier, seed, gated=frozenset()):
    yield {"part": "frag_exh"}
    i = 0
    while True:
        yield {"part": "frag_rand", "seed": f"C19f-{tier}-{seed}-{i}", "count": 40}
        yield {"part": "proto", "seed": f"C19p-{tier}-{seed}-{i}"}
        yield {"part": "corrupt", "seed": f"C19c-{tier}-{seed}-{i}"}
        i += 1


# ------------------------------------------------------------------ in-memory plumbing
class Writer:
    def __init__(self):
        self.buf = bytearray()
        self.closed = False
        self.gone = False
        self.slow = 0

    def write(self, data):
        if not self.gone:
            self.buf += data

    async def drain(self):
        # like asyncio's StreamWriter once the peer is gone
        if self.gone or self.closed:
            raise ConnectionResetError("Connection lost")
        # a subscriber that applies back-pressure: drain() really suspends (existing suspension point)
        for _ in range(self.slow):
            await asyncio.sleep(0)
        return None

    def close(self):
        self.closed = True

    def get_extra_info(self, *a, **k):
        return ("127.0.0.1", 1)


def zmtp_encode(parts):
    out = bytearray()
    for i, p in enumerate(parts):
        more = 1 if i < len(parts) - 1 else 0
        if len(p) <= 255:
            out += bytes([more, len(p)]) + p
        else:
            out += bytes([more | 2]) + struct.pack(">Q", len(p)) + p
    return bytes(out)


def zmtp_decode(buf, skip_greeting=False):
    """Independent decoder: returns (messages, commands) from a byte string (complete frames only)."""
    pos = 64 if skip_greeting else 0
    msgs, cur, cmds = [], [], []
    while pos < len(buf):
        flags = buf[pos]
        pos += 1
        if flags & 2:
            if pos + 8 > len(buf):
                break
            (n,) = struct.unpack(">Q", buf[pos : pos + 8])
            pos += 8
        else:
            if pos + 1 > len(buf):
                break
            n = buf[pos]
            pos += 1
        if pos + n > len(buf):
            break
        body = bytes(buf[pos : pos + n])
        pos += n
        if flags & 4:
            cmds.append(body)
            continue
        cur.append(body)
        if not flags & 1:
            msgs.append(cur)
            cur = []
    return msgs, cmds


async def feed_fragmented(reader, data, cuts):
    """Feed `data` into a StreamReader in pieces ending at the given cut offsets, yielding to the consumer in between."""
    last = 0
    for c in list(cuts) + [len(data)]:
        if c > last:
            reader.feed_data(data[last:c])
            last = c
            for _ in range(3):
                await asyncio.sleep(0)


# ------------------------------------------------------------------ part A
async def roundtrip(parts, cuts, mode, with_cmd=False):
    from custom_components.pyscript.jupyter_kernel import ZmqSocket

    wr = Writer()
    sender = ZmqSocket(None, wr, "ROUTER")
    if with_cmd:
        await sender.send_cmd("PING", [["X", "y"]])
    if mode == "multipart":
        await sender.send_multipart(parts)
    else:
        await sender.send(parts[0])
    if with_cmd:
        await sender.send_cmd("READY", [["Socket-Type", "DEALER"], ["Identity", ""]])
        # a message after the command so the receiver passes over it
    data = bytes(wr.buf)
    reader = asyncio.StreamReader()
    receiver = ZmqSocket(reader, Writer(), "ROUTER")
    task = asyncio.ensure_future(receiver.recv_multipart() if mode == "multipart" else receiver.recv())
    await feed_fragmented(reader, data, [c for c in cuts if 0 < c < len(data)])
    for _ in range(50):
        if task.done():
            break
        await asyncio.sleep(0)
    if not task.done():
        task.cancel()
        return data, "HUNG"
    try:
        return data, task.result()
    except Exception as exc:  # noqa: BLE001
        return data, f"EXC:{type(exc).__name__}:{exc}"


def run_frag(case):
    from ..sim import run_world

    viol = []
    obs = {k: 0 for k in REQUIRED_OBS}
    unit_keys, nontrivial = [], []

    async def check(parts, cuts, mode, with_cmd, label):
        data, got = await roundtrip(parts, cuts, mode, with_cmd)
        obs["fragmentations"] += 1
        want = parts if mode == "multipart" else parts[0]
        if got != want:
            g = got if isinstance(got, str) else ([len(x) for x in got] if isinstance(got, list) else len(got))
            viol.append({"mech": "framing_not_lossless", "msg": f"{label}: frames of lengths {[len(p) for p in parts]} mode={mode} cmd={with_cmd} cuts={list(cuts)[:12]} (stream {len(data)} bytes): received {g}", "replay_case": dict(case)})
            return False
        return True

    async def main(w):
        if case["part"] == "frag_exh":
            small = [[b""], [b"a"], [b"", b""], [b"ab", b""], [b"", b"xyz"], [b"a", b"b", b"c"], [b"\x00\x01\x02"], [b"\xff" * 5], [b"", b"", b"q"], [b"hello"]]
            for parts in small:
                for mode in ("multipart", "single"):
                    if mode == "single" and len(parts) > 1:
                        continue
                    n = len(zmtp_encode(parts)) + (2 if mode == "single" else 0)
                    obs["frame_lists"] += 1
                    if n > 13:
                        continue
                    for k in range(0, n):
                        for cuts in itertools.combinations(range(1, n), k):
                            obs["exhaustive_fragmentations"] += 1
                            key = f"{parts}|{mode}|{cuts}"
                            unit_keys.append(key)
                            if k:
                                nontrivial.append(key)
                            if not await check(parts, cuts, mode, False, "exhaustive"):
                                return
            return
        rng = random.Random(case["seed"])
        for _ in range(case["count"]):
            nparts = rng.randint(1, 8)
            parts = []
            for _ in range(nparts):
                ln = rng.choice(BOUNDARY) if rng.random() < 0.5 else rng.randint(0, 600)
                parts.append(bytes(rng.getrandbits(8) for _ in range(min(ln, 300))) + (bytes([rng.getrandbits(8)]) * max(0, ln - 300)))
            mode = "multipart" if (nparts > 1 or rng.random() < 0.6) else "single"
            with_cmd = rng.random() < 0.3
            obs["frame_lists"] += 1
            total = len(zmtp_encode(parts)) + 64
            key = f"{[len(p) for p in parts]}|{mode}|{with_cmd}|{hashlib.sha1(b''.join(parts)).hexdigest()[:8]}"
            unit_keys.append(key)
            if any(len(p) in BOUNDARY for p in parts):
                nontrivial.append(key)
            plans = [[], list(range(1, min(total, 700)))]  # whole, 1-byte dribble over the head of the stream
            header_zone = min(total, 40)
            plans += [[c] for c in range(1, header_zone)]  # every two-way split inside the first frame headers
            for _ in range(6):
                plans.append(sorted(rng.sample(range(1, max(2, total)), min(rng.randint(1, 12), max(1, total - 1)))))
            # splits right inside every frame header (flags / 8-byte length field)
            pos = 0
            hdr_cuts = []
            pre = 0
            for p in parts:
                hl = 2 if len(p) <= 255 else 9
                hdr_cuts += [pre + pos + j for j in range(1, hl + 1)]
                pos += hl + len(p)
            plans += [[c] for c in hdr_cuts[:40]]
            for cuts in plans:
                if not await check(parts, cuts, mode, with_cmd, "random"):
                    return

    run_world(main, files={})
    return {"verdict": "violated" if viol else "held", "violations": viol[:5], "units": max(1, obs["fragmentations"]), "unit_keys": unit_keys, "nontrivial_keys": nontrivial, "nontrivial": bool(nontrivial), "obs": obs}


# ------------------------------------------------------------------ part B / C: the kernel protocol
class Client:
    """Wire-level Jupyter client with its own ZMTP codec and HMAC."""

    def __init__(self, key):
        self.key = key.encode()
        self.chan = {}

    def sign(self, frames, key=None):
        h = hmac.new(key or self.key, digestmod=hashlib.sha256)
        for f in frames:
            h.update(f)
        return h.hexdigest().encode()

    async def connect(self, name, callback):
        reader = asyncio.StreamReader()
        wr = Writer()
        task = asyncio.ensure_future(callback(reader, wr))
        greeting = b"\xff" + b"\x00" * 8 + b"\x7f" + b"\x03" + b"\x00" + b"NULL" + b"\x00" * 16 + b"\x00" + b"\x00" * 31
        assert len(greeting) == 64
        reader.feed_data(greeting)
        for _ in range(10):
            await asyncio.sleep(0)
        self.chan[name] = {"reader": reader, "writer": wr, "task": task}

    def build(self, msg_type, content, identities, key=None, session="sess"):
        header = {"msg_id": str(uuid.uuid4()), "username": "u", "session": session, "msg_type": msg_type, "version": "5.3", "date": "2024-01-01T00:00:00"}
        frames = [json.dumps(header).encode(), b"{}", b"{}", json.dumps(content).encode()]
        sig = self.sign(frames, key)
        return header, list(identities) + [b"<IDS|MSG>", sig] + frames

    async def send(self, name, parts, rng=None):
        data = zmtp_encode(parts)
        cuts = []
        if rng is not None and len(data) > 2:
            cuts = sorted(rng.sample(range(1, len(data)), min(rng.randint(0, 6), len(data) - 1)))
        await feed_fragmented(self.chan[name]["reader"], data, cuts)

    def received(self, name):
        msgs, cmds = zmtp_decode(bytes(self.chan[name]["writer"].buf), skip_greeting=True)
        out = []
        for m in msgs:
            if b"<IDS|MSG>" not in m:
                out.append({"malformed": m})
                continue
            i = m.index(b"<IDS|MSG>")
            ids, sig, frames = m[:i], m[i + 1], m[i + 2 :]
            ok = len(frames) >= 4 and hmac.compare_digest(self.sign(frames[:4]), sig)
            try:
                dec = [json.loads(f.decode()) for f in frames[:4]]
            except Exception:  # noqa: BLE001
                dec = [None] * 4
            out.append({"ids": ids, "sig_ok": ok, "header": dec[0], "parent": dec[1], "metadata": dec[2], "content": dec[3]})
        return out


CELLS = [
    ("1 + 2", "3"),
    ("'a' * 3", "'aaa'"),
    ("x = 41", None),
    ("x + 1", "42"),
    ("[i * i for i in range(4)]", "[0, 1, 4, 9]"),
    ("{'k': (1, 2)}", "{'k': (1, 2)}"),
    ("None", None),
    ("1 / 0", "ERR:ZeroDivisionError"),
    ("undefined_name_zz", "ERR:NameError"),
    ("def f(a):\n    return a * 2\nf(21)", "42"),
    ("print('hello out')", "OUT:hello out"),
    ("log.warning('warned')\n5", "OUT5:warned"),
    ("int('q')", "ERR:ValueError"),
    ("import math\nmath.floor(2.5)", "2"),
    # values that are falsy without being None still are results
    ("0", "0"),
    ("''", "''"),
    ("[]", "[]"),
    ("1 == 2", "False"),
    ("{}", "{}"),
    ("0.0", "0.0"),
    ("()", "()"),
]


async def start_session(w):
    """Start a kernel through the real service with an in-memory acceptor; returns (kernel callbacks by name, ctx name)."""
    from unittest.mock import patch

    callbacks = []

    class FakeServer:
        def __init__(self):
            self.closed = False

        def close(self):
            self.closed = True

        async def wait_closed(self):
            return None

    servers = []

    async def fake_start_server(cb, host, port, **kw):
        callbacks.append(cb)
        s = FakeServer()
        servers.append(s)
        return s

    with patch("asyncio.start_server", fake_start_server):
        await w.hass.services.async_call(
            "pyscript",
            "jupyter_kernel_start",
            {"shell_port": 1, "iopub_port": 2, "stdin_port": 3, "control_port": 4, "hb_port": 5, "ip": "127.0.0.1", "key": KEY, "transport": "tcp", "signature_scheme": "hmac-sha256", "kernel_name": "pyscript", "state_var": "pyscript.jup_ports", "no_connect_timeout": 10000},
            blocking=True,
        )
    names = ["iopub", "heartbeat", "control", "stdin", "shell"]
    return dict(zip(names, callbacks)), servers


def run_proto(case):
    import logging

    from ..sim import run_world

    rng = random.Random(case["seed"])
    viol = []
    obs = {k: 0 for k in REQUIRED_OBS}
    corrupt = case["part"] == "corrupt"
    cover = {"request_types": [], "corruptions": []}

    async def main(w):
        from custom_components.pyscript.global_ctx import GlobalContextMgr

        cbs, servers = await start_session(w)
        obs["sessions"] = 1
        ctx_name = [n for n in GlobalContextMgr.contexts if n.startswith("jupyter_")][0]
        logging.getLogger(f"custom_components.pyscript.{ctx_name}").setLevel(logging.DEBUG)
        cl = Client(KEY)
        await cl.connect("iopub", cbs["iopub"])
        if rng.random() < 0.5:
            cl.chan["iopub"]["writer"].slow = rng.choice([1, 2, 3])
            obs["slow_subscriber_sessions"] += 1
        await cl.connect("shell", cbs["shell"])
        await cl.connect("heartbeat", cbs["heartbeat"])
        await w.settle()
        # a second front end that attaches to iopub and leaves again in the middle of the session
        cl2 = None
        leave_at = None
        if not corrupt and rng.random() < 0.4:
            cl2 = Client(KEY)
            await cl2.connect("iopub", cbs["iopub"])
            await w.settle()
            leave_at = rng.randint(1, 3)
            obs["second_subscriber_sessions"] += 1
        sent = []
        exec_count = 1
        has_x = False
        nreq = rng.randint(3, 9)
        for qi in range(nreq):
            if cl2 is not None and qi == leave_at:
                ch = cl2.chan["iopub"]
                ch["writer"].gone = True
                ch["reader"].feed_eof()
                await w.settle()
            ids = [bytes(rng.getrandbits(8) for _ in range(rng.randint(1, 6))) for _ in range(rng.randint(0, 2))]
            k = rng.random()
            if k < 0.6:
                code, exp = rng.choice(CELLS)
                if code == "x = 41":
                    has_x = True
                if code == "x + 1" and not has_x:
                    exp = "ERR:NameError"
                store = rng.random() < 0.85
                hdr, parts = cl.build("execute_request", {"code": code, "silent": False, "store_history": store}, ids)
                sent.append({"hdr": hdr, "ids": ids, "type": "execute_request", "code": code, "exp": exp, "count": exec_count, "store": store})
                if store:
                    exec_count += 1
            elif k < 0.7:
                hdr, parts = cl.build("kernel_info_request", {}, ids)
                sent.append({"hdr": hdr, "ids": ids, "type": "kernel_info_request"})
            elif k < 0.8:
                hdr, parts = cl.build("complete_request", {"code": "pyscr", "cursor_pos": 5}, ids)
                sent.append({"hdr": hdr, "ids": ids, "type": "complete_request"})
            elif k < 0.9:
                hdr, parts = cl.build("is_complete_request", {"code": rng.choice(["x = 1", "def f():", "x = ("])}, ids)
                sent.append({"hdr": hdr, "ids": ids, "type": "is_complete_request"})
            else:
                t = rng.choice(["comm_info_request", "history_request"])
                hdr, parts = cl.build(t, {}, ids)
                sent.append({"hdr": hdr, "ids": ids, "type": t})
            cover["request_types"].append(sent[-1]["type"])
            await cl.send("shell", parts, rng)
            obs["requests_sent"] += 1
            await w.settle()
        # heartbeat echo
        hb = b"ping-" + bytes([rng.getrandbits(8)])
        await cl.send("heartbeat", [b"", hb])
        await w.settle()
        got_hb, _ = zmtp_decode(bytes(cl.chan["heartbeat"]["writer"].buf), skip_greeting=True)
        if not got_hb or b"".join(got_hb[-1]) != hb:
            viol.append({"mech": "heartbeat_not_echoed", "msg": f"sent {hb!r} got {got_hb}"})
        shell_before = len(cl.received("shell"))
        n_marker = 0
        if corrupt:
            # one corrupted request, as the last thing this session sees
            code = "marker_corrupt = 12345"
            ids = [b"id1"]
            hdr, parts = cl.build("execute_request", {"code": code, "silent": False, "store_history": True}, ids)
            sig_i = parts.index(b"<IDS|MSG>") + 1
            kind = rng.choice(["sig_char", "sig_char", "sig_empty", "sig_truncated", "sig_zero", "wrong_key", "flip_header", "flip_content", "flip_parent", "drop_content", "swap_frames", "sig_upper"])
            cover["corruptions"].append(kind)
            p = list(parts)
            if kind == "sig_char":
                j = rng.randrange(len(p[sig_i]))
                c = p[sig_i][j : j + 1]
                p[sig_i] = p[sig_i][:j] + (b"0" if c != b"0" else b"1") + p[sig_i][j + 1 :]
            elif kind == "sig_empty":
                p[sig_i] = b""
            elif kind == "sig_truncated":
                p[sig_i] = p[sig_i][: rng.choice([8, 32, 63])]
            elif kind == "sig_zero":
                p[sig_i] = b"0" * 64
            elif kind == "sig_upper":
                p[sig_i] = p[sig_i].upper() if p[sig_i].upper() != p[sig_i] else p[sig_i][:-1] + b"g"
            elif kind == "wrong_key":
                _, p = cl.build("execute_request", {"code": code, "silent": False, "store_history": True}, ids, key=b"other-key")
            elif kind in ("flip_header", "flip_content", "flip_parent"):
                fi = sig_i + {"flip_header": 1, "flip_parent": 2, "flip_content": 4}[kind]
                f = bytearray(p[fi])
                # change one character inside a string value so the frame stays valid JSON
                j = f.index(b"marker_corrupt"[0:1]) if kind == "flip_content" else (f.index(b"u") if b"u" in f else 1)
                f[j] = f[j] ^ 0x01
                p[fi] = bytes(f)
                if kind == "flip_content":
                    code_run = json.loads(p[fi].decode()).get("code", "")
            elif kind == "drop_content":
                p = p[:-1]
            elif kind == "swap_frames":
                p[sig_i + 3], p[sig_i + 4] = p[sig_i + 4], p[sig_i + 3]
            obs["corrupted_requests"] += 1
            await cl.send("shell", p, rng)
            await w.settle()
            await w.advance(0.5)
            gctx = GlobalContextMgr.get(ctx_name)
            table = gctx.global_sym_table if gctx else {}
            executed = any(str(k_).startswith(("marker_corrupt", "larker_corrupt", "narker_corrupt")) for k_ in table) or "marker_corrupt" in table
            after = cl.received("shell")
            if executed:
                viol.append({"mech": "unauthenticated_request_executed", "msg": f"corruption {kind}: the cell ran (globals {sorted(k_ for k_ in table if not str(k_).startswith('__'))[:8]})"})
            elif len(after) != shell_before:
                viol.append({"mech": "unauthenticated_request_answered", "msg": f"corruption {kind}: {len(after) - shell_before} message(s) written to the shell stream afterwards: {[m.get('header', {}) and m['header'].get('msg_type') for m in after[shell_before:]]}"})
            else:
                obs["corruptions_rejected"] += 1
        # ---- a second front end on its own shell connection: its request is served while a cell of the first one is suspended
        if not corrupt and rng.random() < 0.4:
            cl3 = Client(KEY)
            await cl3.connect("shell", cbs["shell"])
            await w.settle()
            hA, pA = cl.build("execute_request", {"code": "task.sleep(1)\n'slowA'", "silent": False, "store_history": False}, [b"A"])
            sent.append({"hdr": hA, "ids": [b"A"], "type": "execute_request", "code": "task.sleep(1)\n'slowA'", "exp": "'slowA'", "count": exec_count, "store": False})
            await cl.send("shell", pA, rng)
            obs["requests_sent"] += 1
            await w.settle()
            hB, pB = cl3.build("execute_request", {"code": "'fastB'", "silent": False, "store_history": False}, [b"B"])
            await cl3.send("shell", pB, rng)
            obs["requests_sent"] += 1
            await w.settle()
            await w.advance(1.6)
            await w.settle()
            obs["two_front_end_sessions"] += 1
            rb = [m for m in cl3.received("shell") if "malformed" not in m]
            okb = len(rb) == 1 and rb[0]["sig_ok"] and rb[0]["parent"] == hB and rb[0]["ids"] == [b"B"] and rb[0]["header"].get("msg_type") == "execute_reply" and rb[0]["content"].get("status") == "ok"
            if not okb:
                viol.append({"mech": "reply_wrong_parent" if rb and rb[0].get("parent") != hB else "reply_missing", "msg": f"second front end: its request got {[(m.get('header') or {}).get('msg_type') for m in rb]} with parents {[((m.get('parent') or {}).get('msg_id')) for m in rb]} (own id {hB['msg_id']}, the other front end's {hA['msg_id']})"})
            io_b = [m for m in cl.received("iopub") if (m.get("parent") or {}).get("msg_id") == hB["msg_id"]]
            res_b = [m for m in io_b if m["header"].get("msg_type") == "execute_result"]
            st_b = [m["content"].get("execution_state") for m in io_b if m["header"].get("msg_type") == "status"]
            if not viol and (len(res_b) != 1 or res_b[0]["content"]["data"].get("text/plain") != "'fastB'" or st_b != ["busy", "idle"]):
                viol.append({"mech": "iopub_bracket_broken", "msg": f"second front end: iopub messages for its request: results {[x['content'].get('data') for x in res_b]} states {st_b}"})
        # ---- verify replies
        shell = cl.received("shell")[:shell_before] if corrupt else cl.received("shell")
        iopub = cl.received("iopub")
        reply_type = {"execute_request": "execute_reply", "kernel_info_request": "kernel_info_reply", "complete_request": "complete_reply", "is_complete_request": "is_complete_reply", "comm_info_request": "comm_info_reply", "history_request": "history_reply"}
        if any("malformed" in m for m in shell + iopub):
            viol.append({"mech": "malformed_wire_message", "msg": "a message without <IDS|MSG> delimiter was written"})
            return
        for s in sent:
            mid = s["hdr"]["msg_id"]
            reps = [m for m in shell if (m["parent"] or {}).get("msg_id") == mid]
            desc = f"{s['type']} {s.get('code', '')!r}"
            if len(reps) != 1:
                viol.append({"mech": "reply_missing" if not reps else "reply_duplicated", "msg": f"{desc}: {len(reps)} replies on shell"})
                continue
            r = reps[0]
            if not r["sig_ok"]:
                viol.append({"mech": "reply_bad_signature", "msg": desc})
            if r["ids"] != s["ids"]:
                viol.append({"mech": "reply_wrong_identities", "msg": f"{desc}: identities {r['ids']} expected {s['ids']}"})
            if r["parent"] != s["hdr"]:
                viol.append({"mech": "reply_wrong_parent", "msg": f"{desc}: parent {r['parent']} expected {s['hdr']}"})
            if r["header"].get("msg_type") != reply_type[s["type"]]:
                viol.append({"mech": "reply_wrong_type", "msg": f"{desc}: {r['header'].get('msg_type')}"})
            obs["replies_verified"] += 1
            mine = [m for m in iopub if (m["parent"] or {}).get("msg_id") == mid]
            if any(not m["sig_ok"] for m in mine):
                viol.append({"mech": "iopub_bad_signature", "msg": desc})
            states = [m["content"].get("execution_state") for m in mine if m["header"].get("msg_type") == "status"]
            types = [m["header"].get("msg_type") for m in mine]
            if states != ["busy", "idle"] or types[0] != "status" or types[-1] != "status":
                viol.append({"mech": "iopub_bracket_broken", "msg": f"{desc}: iopub messages {types} states {states}"})
            else:
                obs["iopub_brackets_verified"] += 1
            if s["type"] == "execute_request":
                c = r["content"]
                if c.get("execution_count") != s["count"]:
                    viol.append({"mech": "execution_count_out_of_step", "msg": f"{desc}: reply count {c.get('execution_count')} expected {s['count']}"})
                exp = s["exp"]
                results = [m for m in mine if m["header"].get("msg_type") == "execute_result"]
                errors = [m for m in mine if m["header"].get("msg_type") == "error"]
                streams = [m for m in mine if m["header"].get("msg_type") == "stream"]
                if exp is not None and exp.startswith("ERR:"):
                    obs["errors_checked"] += 1
                    if c.get("status") != "error" or c.get("ename") != exp[4:] or len(errors) != 1 or errors[0]["content"].get("ename") != exp[4:]:
                        viol.append({"mech": "error_not_reported", "msg": f"{desc}: reply {c.get('status')}/{c.get('ename')} iopub errors {[e['content'].get('ename') for e in errors]}"})
                elif exp is not None and exp.startswith("OUT"):
                    obs["stdout_checked"] += 1
                    text = "".join(m["content"].get("text", "") for m in streams)
                    want = exp.split(":", 1)[1]
                    if want not in text or c.get("status") != "ok":
                        viol.append({"mech": "stdout_missing", "msg": f"{desc}: stream text {text!r} status {c.get('status')} {c.get('ename')} {c.get('evalue')}"})
                    if exp.startswith("OUT5") and (len(results) != 1 or results[0]["content"]["data"].get("text/plain") != "5"):
                        viol.append({"mech": "result_wrong", "msg": f"{desc}: results {[x['content'] for x in results]}"})
                else:
                    obs["results_checked"] += 1
                    if c.get("status") != "ok":
                        viol.append({"mech": "result_wrong", "msg": f"{desc}: status {c.get('status')} {c.get('ename')}"})
                    elif exp is None and results:
                        viol.append({"mech": "result_wrong", "msg": f"{desc}: unexpected execute_result {results[0]['content']}"})
                    elif exp is not None and (len(results) != 1 or results[0]["content"]["data"].get("text/plain") != exp or results[0]["content"].get("execution_count") != s["count"]):
                        viol.append({"mech": "result_wrong", "msg": f"{desc}: results {[x['content'] for x in results]} expected {exp} count {s['count']}"})
        if not corrupt:
            # orderly end of the session through the control channel (also removes the session's log handler)
            await cl.connect("control", cbs["control"])
            hdr, parts = cl.build("shutdown_request", {"restart": False}, [b"ctl"])
            await cl.send("control", parts, rng)
            await w.settle()
            await w.advance(0.2)
            ctl = cl.received("control")
            if len(ctl) != 1 or not ctl[0]["sig_ok"] or ctl[0]["header"].get("msg_type") != "shutdown_reply" or ctl[0]["parent"] != hdr or ctl[0]["ids"] != [b"ctl"]:
                viol.append({"mech": "shutdown_reply_wrong", "msg": f"control channel: {[(m.get('header') or {}).get('msg_type') for m in ctl]}"})
            if GlobalContextMgr.get(ctx_name) is not None or not all(s_.closed for s_ in servers):
                viol.append({"mech": "session_not_shut_down", "msg": f"after shutdown_request: context still there={GlobalContextMgr.get(ctx_name) is not None}, servers closed={[s_.closed for s_ in servers]}"})
        extra = [m for m in shell if (m["parent"] or {}).get("msg_id") not in {s["hdr"]["msg_id"] for s in sent}]
        if extra:
            viol.append({"mech": "reply_unsolicited", "msg": f"{len(extra)} shell messages with unknown parent"})

    w, _ = run_world(main, files={}, keep=True)
    esc = [e for e in w.escapes if "Signatures do not match" not in str(e)]
    if esc:
        viol.append({"mech": "escaped_exception", "msg": str(esc[:2])[:800]})
    seen, uniq = set(), []
    for v in viol:
        if v["mech"] not in seen:
            seen.add(v["mech"])
            uniq.append(v)
    return {
        "verdict": "violated" if uniq else "held",
        "violations": uniq,
        "nontrivial": corrupt or obs["requests_sent"] >= 3,
        "obs": obs,
        "cover": cover,
        "sig": f"{case['part']}|{'|'.join(cover['request_types'])}|{cover['corruptions']}",
    }


def run_case(case):
    if case["part"].startswith("frag"):
        return run_frag(case)
    return run_proto(case)


def sample(case, res):
    return dict(case, obs=res.get("obs"))
