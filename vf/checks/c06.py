"""C06 — time triggers fire at exactly the instants their specification denotes."""

from __future__ import annotations

import datetime as dt
import random

from ..oracle import timespec as TS

ID = "C06"
LEVEL = "exploration"
BUDGET = {"quick": 55, "thorough": 900}
QUICK_CASES = 1500  # generator items in the quick tier (fixed amount of work; BUDGET is then only a safety cap)
FLOOR = {"quick": 8000, "thorough": 8000}  # conclusive cases below which a run is inconclusive (the thorough tier is time-budgeted: same floor)
TIMEOUT = 120
REQUIRED_OBS = ["next_time_queries", "metamorphic_checks", "running_windows", "runs_observed", "instants_expected"]
RULE = (
    "(A) structured time specifications (once / period with and without end / cron with lists, ranges, */n; dates full, mm/dd, weekday "
    "short+long, today, tomorrow, omitted; times h:m[:s[.f]], noon, midnight, sunrise, sunset, now; +/- offsets in every unit spelling; "
    "lists of <= 3) rendered to strings x current times in 2023-07..2025-07 (US/Pacific) biased to the spec's own instants -1us/exact/+1us, "
    "month/year ends, 29 Feb 2024, both DST days: TrigTime.timer_trigger_next vs an independent calendar oracle, plus metamorphic relations "
    "(result > now; same result for any now' in (now, result); iterating enumerates strictly increasing instants). (B) @time_trigger "
    "functions running on the virtual clock for windows of hours to days under both subsystems: set of trigger_time values and real run "
    "instants vs the oracle's enumeration; startup/shutdown counts; in 3 of 4 windows an injected clock fault: the wall clock read by pyscript is slewed "
    "(3 ppm .. 500 ppm slow, 100/500 ppm fast) against the monotonic clock that drives the timers and each read costs 2 us, so every sleep ends early/late by the wall "
    "clock and the early-wake-up re-check loops are exercised (never early, once per instant, not late beyond the slew). Non-trivial: a next instant exists, or >= 3 runs in the window."
)
ASSUMPTIONS = [
    "period() with a time-only start only when start < interval and interval divides 24h (quantifier)",
    "current times within 2 s of a sun event are not used; sunrise/sunset come from astral for HA's test location, truncated to seconds",
    "cron instants inside [01:00, 03:00) local on the two DST days are not judged",
    "today/tomorrow forms are judged in (A) only; (B) windows avoid DST days except for dedicated cron/period DST cases",
    "timer_trigger_next's `startup` special case (now == startup == instant) is not used as a query",
    "with an explicit 'startup' entry next to a `now`-anchored spec, whether the instant equal to `now` itself also fires is not judged (it is not strictly after the first evaluation time)",
]
LO = dt.datetime(2023, 7, 1)
HI = dt.datetime(2025, 7, 1)
SPECIAL = [
    dt.datetime(2024, 2, 29, 12, 0),
    dt.datetime(2024, 2, 28, 23, 59, 59),
    dt.datetime(2023, 12, 31, 23, 59, 59, 999999),
    dt.datetime(2024, 1, 1, 0, 0, 0),
    dt.datetime(2024, 3, 10, 1, 59, 59),
    dt.datetime(2024, 3, 10, 3, 0, 1),
    dt.datetime(2024, 11, 3, 0, 30, 0),
    dt.datetime(2024, 11, 3, 3, 30, 0),
    dt.datetime(2024, 3, 31, 23, 59, 59),
    dt.datetime(2025, 2, 28, 23, 0, 0),
]
DST_DAYS = {dt.date(2024, 3, 10), dt.date(2024, 11, 3), dt.date(2023, 11, 5), dt.date(2025, 3, 9)}


def warm():
    from ..warm import warm as _w

    _w()


# ------------------------------------------------------------------ generation of structures
def gen_offset(rng):
    if rng.random() < 0.6:
        return None
    unit = rng.choice(["s", "m", "h", "d", "w"])
    val = rng.choice([1, 2, 5, 30, 90, 1.5, 0.25]) if unit in "smh" else rng.choice([1, 2, 1.5])
    return [rng.choice(["+", "-"]), val, unit, rng.choice(TS.UNIT_SPELL[unit]), rng.choice(["", " "])]


def gen_time(rng, allow_now=True):
    k = rng.random()
    if k < 0.55:
        h, m = rng.randint(0, 23), rng.randint(0, 59)
        s = rng.randint(0, 59) if rng.random() < 0.5 else None
        frac = rng.choice(["5", "25", "001"]) if s is not None and rng.random() < 0.2 else None
        return ["hms", h, m, s, frac]
    if k < 0.65:
        return ["noon"]
    if k < 0.75:
        return ["midnight"]
    if k < 0.85:
        return ["sunrise"]
    if k < 0.95 or not allow_now:
        return ["sunset"]
    return ["now"]


def gen_date(rng):
    k = rng.random()
    if k < 0.35:
        return None
    if k < 0.55:
        d = LO + dt.timedelta(days=rng.randint(0, (HI - LO).days))
        return ["full", d.year, d.month, d.day]
    if k < 0.72:
        m = rng.randint(1, 12)
        return ["md", m, rng.randint(1, 28) if rng.random() < 0.8 else {2: 29}.get(m, 30)]
    if k < 0.9:
        return ["dow", rng.randint(0, 6), rng.random() < 0.5]
    return [rng.choice(["today", "tomorrow"])]


def gen_dt(rng, allow_rel=True):
    t = gen_time(rng)
    if t[0] == "now":
        return {"date": None, "time": t, "offset": gen_offset(rng)}
    date = gen_date(rng)
    if not allow_rel and date and date[0] in ("today", "tomorrow"):
        date = None
    if rng.random() < 0.08 and date is not None and date[0] in ("full", "md", "dow"):
        t = None  # date only: midnight
    off = gen_offset(rng)
    if date is not None and date[0] != "full" and off is not None:
        # weekday / mm-dd / today / tomorrow dates: an offset that moves the instant to another calendar day makes
        # "which week/year" ambiguous (pyscript resolves the date relative to now, then adds the offset); keep them apart
        if off[2] in ("d", "w") or t is None or t[0] != "hms" or not (3 <= t[1] <= 20):
            off = None
        elif off[2] == "h":
            off[1] = 1
    elif date is None and off is not None and off[2] in ("d", "w"):
        off = None  # daily time + whole days: same ambiguity
    if t is not None and t[0] in ("sunrise", "sunset") and off is not None and date is None or (date and date[0] != "full" and t and t[0] in ("sunrise", "sunset")):
        # a sun time pushed across midnight differs by seconds from day to day, which makes "the same instant seen from
        # the day before / after" ill-defined to within those seconds; keep sun offsets inside the day
        if off is not None and (off[2] in ("d", "w") or (off[2] == "h" and off[1] > 2)):
            off = None
    return {"date": date, "time": t, "offset": off}


def gen_field(rng, lo, hi):
    k = rng.random()
    if k < 0.35:
        return "*"
    if k < 0.5:
        return ["step", rng.choice([2, 3, 5, 10, 15]) if hi >= 23 else rng.choice([2, 3])]
    items = []
    for _ in range(rng.choice([1, 1, 2, 3])):
        if rng.random() < 0.3:
            a = rng.randint(lo, hi - 1)
            items.append([a, rng.randint(a + 1, min(hi, a + 6))])
        else:
            items.append(rng.randint(lo, hi))
    return ["list", items]


def gen_spec(rng, allow_rel=True):
    k = rng.random()
    if k < 0.45:
        return {"k": "once", "dt": gen_dt(rng, allow_rel)}
    if k < 0.75:
        if rng.random() < 0.5:
            # fixed start
            if rng.random() < 0.7:
                d = LO + dt.timedelta(days=rng.randint(0, (HI - LO).days))
                st = {"date": ["full", d.year, d.month, d.day], "time": ["hms", rng.randint(0, 23), rng.randint(0, 59), None, None], "offset": None}
            else:
                st = {"date": None, "time": ["now"], "offset": gen_offset(rng)}
                d = None
            unit = rng.choice(["s", "m", "h", "d", "w"])
            val = rng.choice({"s": [10, 45, 90, 3600], "m": [1, 7, 30, 90, 1.5], "h": [1, 5, 25, 0.5], "d": [1, 2, 30], "w": [1, 2]}[unit])
            end = None
            if rng.random() < 0.4 and d is not None:
                e = d + dt.timedelta(days=rng.randint(0, 40))
                end = {"date": ["full", e.year, e.month, e.day], "time": ["hms", rng.randint(0, 23), rng.randint(0, 59), None, None], "offset": None}
            return {"k": "period", "start": st, "interval": [val, unit, rng.choice(TS.UNIT_SPELL[unit]) or "s"], "end": end}
        # time-only start, daily re-anchoring: start < interval, interval divides 24 h
        iv_min = rng.choice([15, 20, 30, 60, 120, 180, 240, 360, 480, 720])
        st_min = rng.randint(0, iv_min - 1)
        st = {"date": None, "time": ["hms", st_min // 60, st_min % 60, None, None], "offset": None}
        end = None
        if rng.random() < 0.4:
            e = rng.randint(0, 24 * 60 - 1)
            end = {"date": None, "time": ["hms", e // 60, e % 60, None, None], "offset": None}
        if iv_min % 60 == 0 and rng.random() < 0.5:
            iv = [iv_min // 60, "h", rng.choice(TS.UNIT_SPELL["h"])]
        else:
            iv = [iv_min, "m", rng.choice(TS.UNIT_SPELL["m"])]
        return {"k": "period", "start": st, "interval": iv, "end": end}
    dom, dow = gen_field(rng, 1, 28), gen_field(rng, 0, 6)
    if dom != "*" and dow != "*":
        # both day fields restricted (OR rule): use plain lists that do not cover every weekday
        if dom[0] == "step":
            dom = ["list", [rng.randint(1, 28)]]
        dow = ["list", sorted(rng.sample(range(0, 7), rng.randint(1, 3)))]
    return {"k": "cron", "fields": [gen_field(rng, 0, 59), gen_field(rng, 0, 23), dom, gen_field(rng, 1, 12), dow]}


def generate(tier, seed, gated=frozenset()):
    i = 0
    while True:
        yield {"part": "A", "seed": f"C06A-{tier}-{seed}-{i}", "count": 60, "gated": sorted(gated)}
        if i % 2 == 0:
            for legacy in (False, True):
                yield {"part": "B", "seed": f"C06B-{tier}-{seed}-{i}", "legacy": legacy, "gated": sorted(gated)}
        i += 1


def spec_feature(s):
    """Generator features used for known-finding gates."""
    f = []
    dts = [s["dt"]] if s["k"] == "once" else ([s["start"]] + ([s["end"]] if s.get("end") else []) if s["k"] == "period" else [])
    for d in dts:
        if d.get("date") and d["date"][0] in ("md", "dow"):
            f.append(f"{s['k']}.{d['date'][0]}")
    return f


# ------------------------------------------------------------------ part A
def in_dst_hole(x):
    return x is not None and x.date() in DST_DAYS and 1 <= x.hour < 3


def run_part_a(case):
    from .. import interp

    rng = random.Random(case["seed"])
    gated = set(case.get("gated", ()))
    viol = []
    obs = {k: 0 for k in REQUIRED_OBS}
    obs["none_results"] = 0
    unit_keys, nontrivial = [], []
    cover = {"spec_forms": {}, "date_forms": {}, "time_forms": {}}

    async def main(w):
        from custom_components.pyscript.trigger import TrigTime
        from homeassistant.helpers import sun as ha_sun

        loc = ha_sun.get_astral_location(w.hass)
        loc = loc[0] if isinstance(loc, tuple) else loc
        cache = {}

        def sun(kind, date):
            key = (kind, date)
            if key not in cache:
                x = (loc.sunrise if kind == "sunrise" else loc.sunset)(date)
                cache[key] = dt.datetime(x.year, x.month, x.day, x.hour, x.minute, x.second) + (date - x.date())
            return cache[key]

        def near_sun(x):
            for kind in ("sunrise", "sunset"):
                for dd in (-1, 0, 1):
                    if abs((sun(kind, x.date() + dt.timedelta(days=dd)) - x).total_seconds()) < 2.5:
                        return True
            return False

        for _ in range(case["count"]):
            specs = [gen_spec(rng) for _ in range(rng.choice([1, 1, 1, 2, 3]))]
            feats = sorted({f for s in specs for f in spec_feature(s)})
            if any(f in gated for f in feats):
                continue
            strs = [TS.render_spec(s) for s in specs]
            for s in specs:
                cover["spec_forms"][s["k"]] = cover["spec_forms"].get(s["k"], 0) + 1
                for d in ([s["dt"]] if s["k"] == "once" else ([s["start"]] if s["k"] == "period" else [])):
                    dk = d["date"][0] if d.get("date") else "none"
                    tk = d["time"][0] if d.get("time") else "none"
                    cover["date_forms"][dk] = cover["date_forms"].get(dk, 0) + 1
                    cover["time_forms"][tk] = cover["time_forms"].get(tk, 0) + 1
            base = LO + dt.timedelta(seconds=rng.randint(0, int((HI - LO).total_seconds())), microseconds=rng.choice([0, 0, 1, 500000, 999999]))
            startup = base - dt.timedelta(seconds=rng.choice([0.5, 60, 3600, 86400 * 3]))
            nows = [base] + ([rng.choice(SPECIAL)] if rng.random() < 0.3 else [])
            c0 = TS.next_after(specs, base, startup, sun)
            if c0 is not None:
                nows += [c0 - dt.timedelta(microseconds=1), c0, c0 + dt.timedelta(microseconds=1)]
            for now in nows:
                if now <= startup:
                    st_ = now - dt.timedelta(seconds=1)
                else:
                    st_ = startup
                if near_sun(now):
                    continue
                want = TS.next_after(specs, now, st_, sun)
                try:
                    got, got_adj = await TrigTime.timer_trigger_next(list(strs), now, st_)
                except Exception as exc:  # noqa: BLE001
                    viol.append({"mech": f"next_time_raises_{type(exc).__name__}", "msg": f"{strs} now={now} startup={st_}: {exc!r}", "features": feats, "replay_case": {"part": "Aone", "specs": specs, "now": now.isoformat(), "startup": st_.isoformat()}})
                    continue
                obs["next_time_queries"] += 1
                key = f"{strs}|{now.isoformat()}"
                unit_keys.append(key)
                if want is not None:
                    nontrivial.append(key)
                else:
                    obs["none_results"] += 1
                if any(s["k"] == "cron" for s in specs) and (in_dst_hole(want) or in_dst_hole(got) or in_dst_hole(now)):
                    continue
                bad = None
                if (got is None) != (want is None):
                    bad = "missing_next_instant" if got is None else "spurious_next_instant"
                elif got is not None and abs((got - want).total_seconds()) > 2e-6:
                    bad = "wrong_next_instant"
                if got is not None and got <= now:
                    bad = "next_not_after_now"
                if bad:
                    viol.append({"mech": bad, "msg": f"{strs} now={now} startup={st_}: pyscript {got} oracle {want}", "features": feats, "replay_case": {"part": "Aone", "specs": specs, "now": now.isoformat(), "startup": st_.isoformat()}})
                    continue
                # metamorphic: any now' in (now, got) gives the same answer
                if got is not None and (got - now).total_seconds() > 1e-3 and not any((d.get("date") or [""])[0] in ("today", "tomorrow") for s in specs for d in ([s["dt"]] if s["k"] == "once" else [])):
                    frac = rng.random()
                    now2 = now + (got - now) * frac
                    if now2 > now and now2 < got and not near_sun(now2):
                        got2, _ = await TrigTime.timer_trigger_next(list(strs), now2, st_)
                        obs["metamorphic_checks"] += 1
                        if got2 != got and not (any(s["k"] == "cron" for s in specs) and (in_dst_hole(got2) or in_dst_hole(now2))):
                            viol.append({"mech": "next_instant_not_stable", "msg": f"{strs} startup={st_}: next({now})={got} but next({now2})={got2}", "features": feats, "replay_case": {"part": "Aone", "specs": specs, "now": now2.isoformat(), "startup": st_.isoformat()}})

    interp.run_batch_in_world(main)
    return {
        "verdict": "violated" if viol else "held",
        "violations": viol[:30],
        "units": max(1, obs["next_time_queries"]),
        "unit_keys": unit_keys,
        "nontrivial_keys": nontrivial,
        "nontrivial": bool(nontrivial),
        "obs": obs,
        "cover": cover,
    }


def run_part_a_one(case):
    from .. import interp

    out = {}

    async def main(w):
        from custom_components.pyscript.trigger import TrigTime
        from homeassistant.helpers import sun as ha_sun

        loc = ha_sun.get_astral_location(w.hass)
        loc = loc[0] if isinstance(loc, tuple) else loc

        def sun(kind, date):
            x = (loc.sunrise if kind == "sunrise" else loc.sunset)(date)
            return dt.datetime(x.year, x.month, x.day, x.hour, x.minute, x.second) + (date - x.date())

        specs = case["specs"]
        now = dt.datetime.fromisoformat(case["now"])
        st_ = dt.datetime.fromisoformat(case["startup"])
        strs = [TS.render_spec(s) for s in specs]
        want = TS.next_after(specs, now, st_, sun)
        try:
            got, _ = await TrigTime.timer_trigger_next(list(strs), now, st_)
            exc = None
        except Exception as e:  # noqa: BLE001
            got, exc = None, e
        out.update(strs=strs, want=want, got=got, exc=exc)

    interp.run_batch_in_world(main)
    viol = []
    mech = case.get("_witness_of")
    if out["exc"] is not None:
        viol.append({"mech": mech or f"next_time_raises_{type(out['exc']).__name__}", "msg": f"{out['strs']} now={case['now']}: {out['exc']!r}"})
    elif out["got"] != out["want"]:
        m = "missing_next_instant" if out["got"] is None else ("spurious_next_instant" if out["want"] is None else "wrong_next_instant")
        viol.append({"mech": mech or m, "msg": f"{out['strs']} now={case['now']} startup={case['startup']}: pyscript {out['got']} oracle {out['want']}"})
    return {"verdict": "violated" if viol else "held", "violations": viol, "nontrivial": True, "obs": {"next_time_queries": 1}, "features": sorted({f for s in case["specs"] for f in spec_feature(s)})}


# ------------------------------------------------------------------ part B
def gen_running(rng):
    """(specs, start_local, window_seconds): chosen so a handful to ~150 instants fall inside."""
    k = rng.random()
    if k < 0.12:
        # dedicated daylight-saving cases: hourly-ish cron across the change (labels follow the wall clock)
        d = rng.choice([dt.date(2024, 3, 10), dt.date(2024, 11, 3), dt.date(2023, 11, 5), dt.date(2025, 3, 9)])
        start = dt.datetime(d.year, d.month, d.day) - dt.timedelta(hours=rng.choice([1, 2, 3]), minutes=rng.randint(1, 50))
        m = rng.choice([0, 15, 30, 59])
        specs = [{"k": "cron", "fields": [["list", [m]], rng.choice([["step", 3], ["list", [0, [3, 8]]], ["list", [0, 3, 23]], ["list", [[3, 6], 22]]]), "*", "*", "*"]}]  # no match inside the skipped/repeated hours
        return specs, start, rng.choice([8, 10]) * 3600, "dst"
    day = LO + dt.timedelta(days=rng.randint(30, 600))
    while (day.date() in DST_DAYS) or ((day + dt.timedelta(days=1)).date() in DST_DAYS) or ((day + dt.timedelta(days=2)).date() in DST_DAYS) or ((day - dt.timedelta(days=1)).date() in DST_DAYS):
        day += dt.timedelta(days=7)
    start = dt.datetime(day.year, day.month, day.day, rng.randint(0, 23), rng.randint(0, 59), rng.randint(0, 59))
    if k < 0.3:
        m = rng.choice([["step", 5], ["step", 15], ["list", [0, 30]], ["list", [7]], ["list", [[10, 14]]]])
        h = rng.choice(["*", ["step", 2], ["list", [[6, 9], 18]]])
        specs = [{"k": "cron", "fields": [m, h, "*", "*", "*"]}]
        win = rng.choice([3 * 3600, 8 * 3600, 86400])
    elif k < 0.55:
        iv = rng.choice([[45, "s", "s"], [90, "sec", "sec"], [7, "m", "min"], [1.5, "m", "minutes"], [1, "h", "hr"]])
        st = {"date": None, "time": ["now"], "offset": rng.choice([None, ["+", 30, "s", "s", " "], ["+", 2, "m", "min", ""]])}
        end = None
        if rng.random() < 0.4:
            end = {"date": None, "time": ["now"], "offset": ["+", rng.choice([20, 45]), "m", "min", " "]}
        specs = [{"k": "period", "start": st, "interval": [iv[0], iv[1][0], iv[2]], "end": end}]
        win = rng.choice([1800, 3600, 2 * 3600])
    elif k < 0.8:
        specs = []
        for _ in range(rng.choice([1, 2, 3])):
            specs.append({"k": "once", "dt": {"date": None, "time": ["hms", rng.randint(0, 23), rng.randint(0, 59), rng.choice([None, 0, 30]), None], "offset": rng.choice([None, ["+", 90, "m", "min", " "], ["-", 1, "h", "hour", " "]])}})
        win = rng.choice([86400, 2 * 86400 + 3600])
    else:
        iv_min = rng.choice([20, 30, 60, 120])
        st_min = rng.randint(0, iv_min - 1)
        specs = [
            {"k": "period", "start": {"date": None, "time": ["hms", st_min // 60, st_min % 60, None, None], "offset": None}, "interval": [iv_min, "m", "min"], "end": None},
            {"k": "once", "dt": {"date": None, "time": rng.choice([["noon"], ["midnight"], ["sunset"], ["sunrise"]]), "offset": rng.choice([None, ["+", 10, "m", "m", " "]])}},
        ]
        win = rng.choice([6 * 3600, 86400])
    return specs, start, win, "plain"


def now_based_specs(specs):
    return any((d.get("time") or [""])[0] == "now" for s in specs if s["k"] != "cron" for d in ([s["dt"]] if s["k"] == "once" else [s["start"]] + ([s["end"]] if s.get("end") else [])))


def run_part_b(case):
    from ..sim import run_world

    rng = random.Random(case["seed"])
    specs, start_local, win, mode = gen_running(rng)
    strs = [TS.render_spec(s) for s in specs]
    extra = rng.choice([[], ["startup"], ["shutdown"], ["startup", "shutdown"]])
    args = ", ".join(repr(x) for x in strs + extra)
    script = f"@time_trigger({args}, kwargs={{'dec': 0}})\ndef f(trigger_time=None, **kw):\n    vf.rec('tt', tt=trigger_time, kw=kw)\n"
    # local -> utc for the world's start (fold=0)
    import zoneinfo

    tz = zoneinfo.ZoneInfo("US/Pacific")
    start_utc = start_local.replace(tzinfo=tz).astimezone(dt.timezone.utc).replace(tzinfo=None)
    state = {}

    async def main(w):
        from homeassistant.helpers import sun as ha_sun

        loc = ha_sun.get_astral_location(w.hass)
        loc = loc[0] if isinstance(loc, tuple) else loc

        def sun(kind, date):
            x = (loc.sunrise if kind == "sunrise" else loc.sunset)(date)
            return dt.datetime(x.year, x.month, x.day, x.hour, x.minute, x.second) + (date - x.date())

        state["sun"] = sun
        state["startup_local"] = w.clock.local_naive()
        await w.advance(win)
        state["end_local"] = w.clock.local_naive()
        await w.unload()
        await w.advance(1)

    # injected fault: a wall clock that is being slewed against the monotonic clock (NTP slews up to 500 ppm); the denoted
    # instants are wall-clock instants, so the oracle is unchanged
    skew = rng.choice([0.0, 0.0, 1e-4, 5e-4, 2e-5, 3e-6, -1e-4, -5e-4])
    w, _ = run_world(main, files={"c06.py": script}, legacy=case["legacy"], tick=rng.choice([1e-6, 5e-6, 5e-5]), start=start_utc, keep=True, skew=skew)
    viol = []
    recs = [r for r in w.rec if r["tag"] == "tt"]
    got = [(r["tt"], r["t"]) for r in recs if r["tt"] not in ("startup", "shutdown")]
    n_startup = sum(1 for r in recs if r["tt"] == "startup")
    n_shutdown = sum(1 for r in recs if r["tt"] == "shutdown")
    # the trigger's own start instant is a few ms before `startup_local`; enumerate from just before it
    # (a `now`-anchored start instant itself is denoted: period(now, ...) fires at start-up)
    t0 = state["startup_local"]
    exp = TS.enumerate_between(specs, t0 - dt.timedelta(microseconds=1), state["end_local"], t0, state["sun"])
    # `now`-relative specs are anchored at the trigger start, which we only know to ~0.2 s: compare with tolerance
    now_based = now_based_specs(specs)
    got_dt = [dt.datetime.fromisoformat(g[0]) for g in got]
    if mode == "dst":
        # labels inside the skipped / repeated hours are not judged
        keep = [i for i, g in enumerate(got_dt) if not in_dst_hole(g)]
        got = [got[i] for i in keep]
        got_dt = [got_dt[i] for i in keep]
        exp = [e for e in exp if not in_dst_hole(e)]
    tol = 0.25 if now_based else 2e-6
    if now_based and "startup" in extra and exp and abs((exp[0] - t0).total_seconds()) < tol and len(got_dt) == len(exp) - 1 and (not got_dt or abs((got_dt[0] - exp[0]).total_seconds()) > tol):
        # An instant equal to `now` is not "strictly after the current time" of the trigger's first evaluation, which is all
        # the statement promises; pyscript fires it through a special case that needs the evaluation time to still equal the
        # start-up time.  With an explicit "startup" entry the legacy loop spends its first pass on that entry and reads the
        # clock again afterwards, so whether the `now` instant also fires depends on the clock having moved: not judged.
        exp = exp[1:]
    desc = f"{strs}+{extra} start={state['startup_local']} window={win}s legacy={case['legacy']} skew={skew}"
    if len(got_dt) != len(exp):
        # an instant within the tolerance of the window end may or may not be inside
        if not (abs(len(got_dt) - len(exp)) == 1 and ((exp and abs((exp[-1] - state["end_local"]).total_seconds()) < 0.5) or (got_dt and abs((got_dt[-1] - state["end_local"]).total_seconds()) < 0.5))):
            mech = "time_trigger_run_missing" if len(got_dt) < len(exp) else "time_trigger_extra_run"
            viol.append({"mech": mech, "msg": f"{desc}: expected {len(exp)} runs {[str(x) for x in exp[:6]]}.. got {len(got_dt)} {[str(x) for x in got_dt[:6]]}.."})
    else:
        for g, e in zip(got_dt, exp):
            if abs((g - e).total_seconds()) > tol:
                viol.append({"mech": "time_trigger_wrong_trigger_time", "msg": f"{desc}: expected trigger_time {e} got {g}"})
                break
    for i in range(1, len(got_dt)):
        if got_dt[i] <= got_dt[i - 1]:
            viol.append({"mech": "trigger_times_not_increasing", "msg": f"{desc}: {got_dt[i-1]} then {got_dt[i]}"})
            break
    # each run happens at its trigger_time (the run is started within 10 ms virtual of the instant)
    for (tt, t_run), g in zip(got, got_dt):
        run_utc = w.clock.utc_at(t_run)
        label_utc = w.clock.utc_of_local_naive(g)
        late = (run_utc - label_utc).total_seconds()
        # a wall clock that runs ahead of the timers (skew < 0) makes every wake-up late by up to |skew| x the sleep; only
        # "never early" can be demanded then
        if late < -0.05 or late > 0.05 + max(0.0, -skew) * win:
            viol.append({"mech": "run_not_at_trigger_time", "msg": f"{desc}: trigger_time {g} (= {label_utc} UTC) but ran at {run_utc} UTC"})
            break
    if n_startup != (1 if "startup" in extra else 0):
        viol.append({"mech": "startup_run_count", "msg": f"{desc}: {n_startup} startup runs"})
    if n_shutdown != (1 if "shutdown" in extra else 0):
        viol.append({"mech": "shutdown_run_count", "msg": f"{desc}: {n_shutdown} shutdown runs"})
    errs = w.logs(level="ERROR")
    if errs:
        viol.append({"mech": "unexpected_error_log", "msg": str(errs[:2])[:800]})
    if w.escapes:
        viol.append({"mech": "escaped_exception", "msg": str(w.escapes[:2])[:800]})
    return {
        "verdict": "violated" if viol else "held",
        "violations": viol,
        "nontrivial": len(exp) >= 3,
        "obs": {"running_windows": 1, "runs_observed": len(recs), "instants_expected": len(exp), "legacy_cases": int(case["legacy"]), "default_cases": int(not case["legacy"]), "skewed_clock_windows": int(skew != 0.0)},
        "cover": {"running_spec_forms": [s["k"] for s in specs] + extra + ["mode:" + mode]},
        "sig": f"{len(exp)}|{specs[0]['k']}|{case['legacy']}|{mode}|{skew}",
    }


def run_case(case):
    if case["part"] == "A":
        return run_part_a(case)
    if case["part"] == "Aone":
        return run_part_a_one(case)
    return run_part_b(case)


def sample(case, res):
    if case["part"] == "A":
        rng = random.Random(case["seed"])
        return {"part": "A", "specs": [TS.render_spec(gen_spec(rng)) for _ in range(4)]}
    if case["part"] == "B":
        rng = random.Random(case["seed"])
        specs, start, win, _mode = gen_running(rng)
        return {"part": "B", "specs": [TS.render_spec(s) for s in specs], "start": str(start), "window_s": win, "legacy": case["legacy"]}
    return case
