"""C04 — state triggers run the function for exactly the qualifying state changes.

Reference-model monitor over recorded runs (DESIGN 2/C04)."""

from __future__ import annotations

import asyncio
import random

from .. import stexpr as X

ID = "C04"
LEVEL = "exploration"
BUDGET = {"quick": 55, "thorough": 900}
QUICK_CASES = 3000  # generator items in the quick tier (fixed amount of work; BUDGET is then only a safety cap)
FLOOR = {"quick": 1000, "thorough": 1000}  # conclusive cases below which a run is inconclusive (the thorough tier is time-budgeted: same floor)
TIMEOUT = 60
BATCH = 1
REQUIRED_OBS = ["runs_observed", "events_emitted", "events_qualifying", "events_not_qualifying"]
RULE = (
    "random scripts (1-4 functions, 1-2 @state_trigger each: 1-3 string/list/set arguments built from a structured "
    "expression grammar incl. .old/.attr/in/and/or/not, any-change names d.e / d.e.attr / d.e.*, watch=, kwargs=) x random "
    "histories (8-40 create/change/attr-only/re-set-same/delete steps over 3 entities; settled, k yields apart or same-iteration "
    "bursts) under both decorator subsystems; oracle = independent evaluation of the structure on the modelled event stream; "
    "a case is non-trivial when >=1 (decorator,event) pair qualifies and >=1 does not; distinct by canonical case hash"
)
ASSUMPTIONS = [
    "attribute names never collide with str methods or virtual attributes",
    "entities referenced but excluded by watch= exist and do not change (statement fixes values only for notified entities)",
    "start order across different decorators of one function inside a burst is not asserted (independent triggers)",
    "watch= is only generated for decorators that have an expression and always includes the any-change names",
    "HA emits no state_changed for a re-set of identical state+attributes (modelled, and cross-checked on the bus tap)",
]
ENTS = ["pyscript.e0", "pyscript.e1", "pyscript.e2"]


def warm():
    from ..warm import warm as _w

    _w()


# ---------------------------------------------------------------- generation
def _gen_dec(rng, di):
    nargs = rng.choice([1, 1, 1, 2, 3])
    args = []
    has_expr = False
    for _ in range(nargs):
        form = rng.choice(["str", "str", "list", "set"])
        nitems = 1 if form == "str" else rng.randint(1, 3)
        items = []
        for _ in range(nitems):
            if rng.random() < 0.3:
                ent = rng.choice(ENTS)
                k = rng.random()
                name = ent if k < 0.4 else (f"{ent}.{rng.choice(X.ATTRS)}" if k < 0.75 else f"{ent}.*")
                items.append({"any": name})
            else:
                items.append({"expr": X.gen_expr(rng, ENTS, depth=rng.choice([0, 1, 2, 2]))})
                has_expr = True
        args.append({"form": form, "items": items})
    dec = {"args": args, "watch": None, "kw": {"dec": di}}
    if has_expr and rng.random() < 0.3:
        exprs = [it["expr"] for a in args for it in a["items"] if "expr" in it]
        nm = set()
        for e in exprs:
            nm |= X.names(e)
        anys = {it["any"] for a in args for it in a["items"] if "any" in it}
        ents_used = sorted({X.entity_of(n) for n in nm})
        if rng.random() < 0.5 and len(ents_used) > 1:
            # subset: one whole entity becomes a pure condition; it is frozen for the history
            drop = rng.choice(ents_used)
            # an unwatched entity's .old is not resolvable at all (AttributeError), so only entities that
            # the expression reads through plain value / attribute names may be dropped
            uses_old = any(X.entity_of(n) == drop and ".old" in n for n in nm)
            if not uses_old and not any(X.entity_of(a) == drop for a in anys):
                dec["watch"] = sorted({n for n in nm if X.entity_of(n) != drop} | anys)
                dec["frozen"] = drop
        if dec["watch"] is None:
            extra = rng.choice(ENTS)
            extra = extra if rng.random() < 0.5 else f"{extra}.{rng.choice(X.ATTRS)}"
            dec["watch"] = sorted(nm | anys | {extra})
        dec["watch_form"] = rng.choice(["list", "set"])
    if rng.random() < 0.2:
        dec["kw"][rng.choice(["var_name", "value", "extra"])] = "OVR"
    return dec


def _gen_hist(rng, n, frozen=()):
    state = {e: None for e in ENTS}
    init = {}
    for e in ENTS:
        if e in frozen:
            init[e] = {"s": rng.choice(X.VALUES), "a": {a: rng.choice(X.ATTR_VALUES) for a in X.ATTRS}}
            state[e] = init[e]
        elif rng.random() < 0.7:
            init[e] = {"s": rng.choice(X.VALUES), "a": {a: rng.choice(X.ATTR_VALUES) for a in X.ATTRS if rng.random() < 0.7}}
            state[e] = init[e]
    hist = []
    mode = rng.choice(["settled", "yields", "burst", "mixed"])
    burst_left = 0
    live = [e for e in ENTS if e not in frozen] or ENTS
    for _ in range(n):
        ent = rng.choice(live)
        cur = state[ent]
        k = rng.random()
        if cur is None or k < 0.45:
            s = rng.choice(X.VALUES)
            a = dict(cur["a"]) if cur else {}
            if cur is None or rng.random() < 0.3:
                a = {at: rng.choice(X.ATTR_VALUES) for at in X.ATTRS if rng.random() < 0.7}
            op = {"op": "set", "ent": ent, "s": s, "a": a}
        elif k < 0.65:
            a = dict(cur["a"])
            at = rng.choice(X.ATTRS)
            if at in a and rng.random() < 0.25:
                del a[at]
            else:
                a[at] = rng.choice(X.ATTR_VALUES)
            op = {"op": "set", "ent": ent, "s": cur["s"], "a": a}
        elif k < 0.8:
            op = {"op": "set", "ent": ent, "s": cur["s"], "a": dict(cur["a"])}  # identical re-set
        elif k < 0.9:
            op = {"op": "del", "ent": ent}
        else:
            s = rng.choice(X.VALUES)
            op = {"op": "set", "ent": ent, "s": s, "a": dict(cur["a"])}
        if op["op"] == "del":
            state[ent] = None
        else:
            state[ent] = {"s": op["s"], "a": op["a"]}
        if mode == "settled":
            gap = "settle"
        elif mode == "yields":
            gap = rng.randint(1, 5)
        elif mode == "burst":
            if burst_left > 0:
                gap, burst_left = 0, burst_left - 1
            else:
                gap, burst_left = "settle", rng.randint(1, 5)
        else:
            gap = rng.choice(["settle", 0, 0, 1, 3])
        op["gap"] = gap
        hist.append(op)
    return init, hist


def generate(tier, seed):
    rng = random.Random(f"C04-{tier}-{seed}")
    i = 0
    while True:
        funcs = []
        di = 0
        for fi in range(rng.choice([1, 1, 2, 3, 4])):
            decs = []
            for _ in range(rng.choice([1, 1, 1, 2])):
                decs.append(_gen_dec(rng, di))
                di += 1
            funcs.append({"name": f"f{fi}", "decs": decs})
        frozen = sorted({d["frozen"] for f in funcs for d in f["decs"] if d.get("frozen")})
        if len(frozen) == len(ENTS):
            continue
        init, hist = _gen_hist(rng, rng.randint(8, 40 if tier == "thorough" else 28), frozen)
        base = {"funcs": funcs, "init": init, "hist": hist, "tick": rng.choice([1e-6, 5e-6, 5e-5, 5e-4])}
        for legacy in (False, True):
            c = dict(base)
            c["legacy"] = legacy
            c["n"] = i
            yield c
        i += 1


# ---------------------------------------------------------------- rendering
def _render_item(it):
    return it["any"] if "any" in it else X.render(it["expr"])


def render_script(case):
    lines = []
    for f in case["funcs"]:
        for d in f["decs"]:
            parts = []
            for a in d["args"]:
                strs = [_render_item(it) for it in a["items"]]
                if a["form"] == "str":
                    parts.append(repr(strs[0]))
                elif a["form"] == "list":
                    parts.append("[" + ", ".join(repr(s) for s in strs) + "]")
                else:
                    parts.append("{" + ", ".join(repr(s) for s in strs) + "}")
            if d.get("watch") is not None:
                if d.get("watch_form") == "set":
                    parts.append("watch={" + ", ".join(repr(s) for s in d["watch"]) + "}")
                else:
                    parts.append(f"watch={d['watch']!r}")
            parts.append(f"kwargs={d['kw']!r}")
            lines.append(f"@state_trigger({', '.join(parts)})")
        lines.append(f"def {f['name']}(**kw):")
        lines.append(f"    vf.rec('run', fn={f['name']!r}, kw=kw)")
        lines.append("")
    return "\n".join(lines)


# ---------------------------------------------------------------- oracle
RAISED = [0]


def model(case):
    RAISED[0] = 0
    """Return (events, expected): events = list of emitted state_changed (idx, ent, old, new);
    expected[dec] = ordered list of expected runs."""
    state = {e: None for e in ENTS}
    state.update({e: s for e, s in case["init"].items()})
    events = []
    for i, op in enumerate(case["hist"]):
        ent = op["ent"]
        old = state[ent]
        new = None if op["op"] == "del" else {"s": op["s"], "a": dict(op["a"])}
        if old == new:
            continue
        state[ent] = new
        events.append({"i": i, "ent": ent, "old": old, "new": new, "env": {k: v for k, v in state.items()}})
    expected = {}
    pairs_q = pairs_nq = 0
    for f in case["funcs"]:
        for d in f["decs"]:
            exprs = [it["expr"] for a in d["args"] for it in a["items"] if "expr" in it]
            anys = [it["any"] for a in d["args"] for it in a["items"] if "any" in it]
            if d.get("watch") is not None:
                watched = set(d["watch"])
            else:
                watched = set(anys)
                for e in exprs:
                    watched |= X.names(e)
            ents = {X.entity_of(w) for w in watched if 2 <= len(w.split(".")) <= 3}
            runs = []
            for ev in events:
                ent, old, new = ev["ent"], ev["old"], ev["new"]
                q = False
                if ent in ents:
                    if any(X.any_change_matches(n, ent, old, new) for n in anys):
                        q = True
                    elif exprs and any(X.name_changed(w, ent, old, new) for w in watched):
                        try:
                            # several expression strings are evaluated as any([e1, e2, ...]): all of them, in order
                            q = any([X.truth(e, ev["env"], ent, old) for e in exprs])
                        except X.ExprRaises:
                            # the whole evaluation is abandoned: not true, reported, and the trigger lives on
                            q = False
                            RAISED[0] += 1
                if q:
                    pairs_q += 1
                    kw = {"trigger_type": "state", "var_name": ent, "value": new, "old_value": old, "context": f"ev{ev['i']}"}
                    kw.update(d["kw"])
                    runs.append(kw)
                else:
                    pairs_nq += 1
            expected[d["kw"]["dec"]] = {"fn": f["name"], "runs": runs}
    return events, expected, pairs_q, pairs_nq


# ---------------------------------------------------------------- execution
def run_case(case):
    from ..sim import run_world

    events, expected, pq, pnq = model(case)
    script = render_script(case)

    async def main(w):
        from homeassistant.core import Context

        for i, op in enumerate(case["hist"]):
            w._rec("issue", i=i)
            ctx = Context(id=f"ev{i}")
            if op["op"] == "del":
                w.hass.states.async_remove(op["ent"], context=ctx)
            else:
                w.hass.states.async_set(op["ent"], op["s"], op["a"], context=ctx)
            if op["gap"] == "settle":
                await w.settle()
            else:
                for _ in range(op["gap"]):
                    await asyncio.sleep(0)
        await w.settle()
        await w.advance(1.0)
        emitted = [b for b in w.bus if b["type"] == "state_changed" and b["data"]["entity_id"] in ENTS and b["t"] >= w.epoch]
        return emitted

    def pre(w):
        for e, s in case["init"].items():
            w.hass.states.async_set(e, s["s"], s["a"])

    from ..sim import World  # noqa: F401

    res = run_world(main, files={"c04.py": script}, legacy=case["legacy"], tick=case["tick"], pre_setup=pre, keep=True)
    w, emitted = res
    viol = []
    # cross-check the event model against the bus tap (harness self-check, not a pyscript property)
    if [b["ctx"] for b in emitted] != [f"ev{e['i']}" for e in events]:
        return {"verdict": "inconclusive", "why": "event model disagrees with HA bus tap"}
    runs = [r for r in w.rec if r["tag"] == "run"]
    by_dec = {}
    for r in runs:
        by_dec.setdefault(r["kw"].get("dec"), []).append(r)
    for dec, exp in expected.items():
        got = by_dec.pop(dec, [])
        got_kw = [_norm(r["kw"]) for r in got]
        exp_kw = [_norm(k) for k in exp["runs"]]
        if any(r["fn"] != exp["fn"] for r in got):
            viol.append({"mech": "run_wrong_function", "msg": f"dec {dec} ran another function"})
        if got_kw != exp_kw:
            gk = [k["context"] for k in got_kw]
            ek = [k["context"] for k in exp_kw]
            if sorted(gk) == sorted(ek) and gk != ek:
                mech = "runs_reordered"
            elif set(ek) - set(gk):
                mech = "run_missing"
            elif len(gk) != len(set(gk)):
                mech = "run_duplicated"
            elif set(gk) - set(ek):
                mech = "run_unexpected"
            else:
                mech = "run_wrong_kwargs"
            evd = {f"ev{e['i']}": e for e in events}
            miss = [c for c in ek if c not in gk]
            unex = [c for c in gk if c not in ek]
            det = {c: {k: evd[c][k] for k in ("ent", "old", "new")} for c in (miss + unex)[:3] if c in evd}
            src = [ln for ln in script.split("\n") if f"'dec': {dec}" in ln or f"'dec': {dec}," in ln]
            viol.append(
                {
                    "mech": mech,
                    "msg": f"dec {dec} fn {exp['fn']} {src[:1]}: missing={miss[:5]} unexpected={unex[:5]} details={det} "
                    f"order_exp={ek[:12]} order_got={gk[:12]}"
                    + ("" if miss or unex else f" kw_exp={exp_kw[:2]} kw_got={got_kw[:2]}"),
                    "dec": dec,
                }
            )
    if by_dec:
        viol.append({"mech": "run_unknown_decorator", "msg": str(list(by_dec))})
    serials = [r["task"] for r in runs]
    if len(serials) != len(set(serials)):
        viol.append({"mech": "runs_share_task", "msg": "two runs recorded in the same task"})
    errs = [r for r in w.logs(level="ERROR") if not (RAISED[0] and "ZeroDivisionError" in r["msg"])]
    if errs:
        viol.append({"mech": "unexpected_error_log", "msg": str(errs[:3])})
    if w.escapes:
        viol.append({"mech": "escaped_exception", "msg": str(w.escapes[:3])})
    sig = "".join("S" if r["tag"] == "issue" else "R" for r in w.rec if r["tag"] in ("issue", "run"))
    cover = {"arg_forms": [], "atom_kinds": []}
    for f in case["funcs"]:
        for d in f["decs"]:
            for a in d["args"]:
                for it in a["items"]:
                    cover["arg_forms"].append(a["form"] + ":" + ("any" if "any" in it else "expr"))
                    if "expr" in it:
                        _atoms(it["expr"], cover["atom_kinds"])
            if d.get("watch") is not None:
                cover["arg_forms"].append("watch")
    return {
        "verdict": "violated" if viol else "held",
        "violations": viol,
        "nontrivial": pq > 0 and pnq > 0,
        "obs": {
            "runs_observed": len(runs),
            "events_emitted": len(events),
            "events_qualifying": pq,
            "events_not_qualifying": pnq,
            "legacy_cases": int(case["legacy"]),
            "default_cases": int(not case["legacy"]),
        },
        "sig": sig,
        "cover": cover,
    }


def _atoms(e, out):
    if e[0] in ("and", "or", "not"):
        out.append(e[0])
        for s in e[1:]:
            _atoms(s, out)
    else:
        out.append(e[0])


def _norm(kw):
    out = {}
    for k, v in kw.items():
        if isinstance(v, dict) and "s" in v and "a" in v:
            out[k] = {"s": v["s"], "a": dict(sorted(v["a"].items()))}
        else:
            out[k] = v
    return out


def sample(case, res):
    return {"script": render_script(case), "legacy": case["legacy"], "history": case["hist"][:8], "obs": res.get("obs"), "sig": res.get("sig")}
