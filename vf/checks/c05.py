"""C05 — state_check_now / state_hold / state_hold_false timing semantics (reference timeline)."""

from __future__ import annotations

import random

ID = "C05"
LEVEL = "exploration"
BUDGET = {"quick": 50, "thorough": 900}
QUICK_CASES = 5000  # generator items in the quick tier (fixed amount of work; BUDGET is then only a safety cap)
FLOOR = {"quick": 1500, "thorough": 1500}  # conclusive cases below which a run is inconclusive (the thorough tier is time-budgeted: same floor)
TIMEOUT = 60
REQUIRED_OBS = ["runs_observed", "holds_started", "false_holds_started", "wait_until_returns", "evaluations_modelled"]
RULE = (
    "all 27 combinations of state_check_now {unset,False,True} x state_hold {None,0,S} x state_hold_false {None,0,H} (S,H in "
    "{1.5,2.5}) x initial truth {true,false,entity missing} x form {decorator, task.wait_until} x both subsystems, each with random "
    "timed histories (3-12 events on an integer-second grid: watched value changes true/false/stay-true-other-value, delete, "
    "attribute-only updates of the watched entity, unwatched entity changes) on the virtual clock; oracle = reference timeline "
    "from the documented rules, times compared within 10 ms, kwargs compared exactly. Non-trivial: a hold or false-hold timer was "
    "started in the model."
)
ASSUMPTIONS = [
    "event times on an integer grid, S and H non-integer or 0, so no event ties with a timer expiry",
    "triggers mixing an any-change name with hold_false are not generated (no documented rule)",
    "run/return times are compared with a 10 ms virtual tolerance (clock tick per loop iteration)",
]
TRUE_VALS = ["on", "hot"]
FALSE_VALS = ["off", "cold"]
EXPR = "pyscript.e0 == 'on' or pyscript.e0 == 'hot'"


def warm():
    from ..warm import warm as _w

    _w()


def generate(tier, seed, gated=frozenset()):
    rng = random.Random(f"C05-{tier}-{seed}")
    combos = [
        (cn, sh, hf, it, form)
        for cn in ("unset", False, True)
        for sh in (None, 0, "S")
        for hf in (None, 0, "H")
        for it in ("true", "false", "missing")
        for form in ("dec", "wait")
    ]
    n = 0
    while True:
        rng.shuffle(combos)
        for cn, sh, hf, it, form in combos:
            S = rng.choice([1.5, 2.5])
            H = rng.choice([1.5, 2.5])
            cfg = {
                "check_now": cn,
                "hold": None if sh is None else (0 if sh == 0 else S),
                "hold_false": None if hf is None else (0 if hf == 0 else H),
                "init": it,
                "form": form,
            }
            cur = {"true": "on", "false": "off", "missing": None}[it]
            t = 0
            evs = []
            for _ in range(rng.randint(3, 12)):
                t += rng.choice([1, 1, 2, 3, 4])
                k = rng.random()
                if k < 0.55 or cur is None:
                    pool = [v for v in TRUE_VALS + FALSE_VALS if v != cur]
                    # bias towards staying in the same truth class now and then
                    v = rng.choice(pool)
                    evs.append({"t": t, "op": "val", "v": v})
                    cur = v
                elif k < 0.72:
                    evs.append({"t": t, "op": "attr", "a": rng.randint(0, 99)})
                elif k < 0.88:
                    evs.append({"t": t, "op": "other", "v": str(rng.randint(0, 99))})
                else:
                    evs.append({"t": t, "op": "del"})
                    cur = None
            call_at = rng.choice([0.5, 0.5, 2.5, 4.5]) if form == "wait" else None
            timeout = rng.choice([None, None, 6.25, 0]) if form == "wait" else None
            if timeout == 0 and cfg["hold"] == 0:
                timeout = None  # hold expiry and timeout at the same instant: no rule says which wins
            feats = []
            if any(e["op"] == "attr" for e in evs):
                feats.append("attr_only_update")
            # the same function may also carry a periodic time trigger that comes due while holds are pending: the two must not
            # interfere (its instants are off the grid of the state changes and of the hold periods)
            companion = form == "dec" and rng.random() < 0.3
            for legacy in (False, True):
                yield {
                    "companion": companion,
                    "cfg": cfg,
                    "events": evs,
                    "call_at": call_at,
                    "timeout": timeout,
                    "legacy": legacy,
                    "tick": rng.choice([1e-6, 5e-6, 5e-5, 5e-4]),
                    "features": feats + (["legacy"] if legacy else ["default"]),
                    "n": n,
                }
            n += 1


def render_script(case):
    cfg = case["cfg"]
    kws = []
    if cfg["check_now"] != "unset":
        kws.append(f"state_check_now={cfg['check_now']!r}")
    if cfg["hold"] is not None:
        kws.append(f"state_hold={cfg['hold']!r}")
    if cfg["hold_false"] is not None:
        kws.append(f"state_hold_false={cfg['hold_false']!r}")
    if cfg["form"] == "dec":
        kws.append("kwargs={'dec': 0}")
        comp = "@time_trigger('period(now + 0.7s, 1.3s)', kwargs={'dec': 'time'})\n" if case.get("companion") else ""
        return f"{comp}@state_trigger({EXPR!r}, {', '.join(kws)})\ndef f(**kw):\n    vf.rec('run', kw=kw)\n"
    if case["timeout"] is not None:
        kws.append(f"timeout={case['timeout']!r}")
    return (
        "@service\n"
        "def waiter():\n"
        "    vf.rec('call')\n"
        f"    r = task.wait_until(state_trigger={EXPR!r}, {', '.join(kws)})\n"
        "    vf.rec('ret', r=r)\n"
    )


def truth(v):
    return v in TRUE_VALS


def timeline(case):
    """Reference model.  Returns (occurrences, stats); an occurrence is {t, kw}.  Times are relative
    to the trigger start (decorator: end of set-up; wait_until: the call)."""
    cfg = case["cfg"]
    form = cfg["form"]
    S, H = cfg["hold"], cfg["hold_false"]
    check_now = cfg["check_now"]
    if form == "wait" and check_now == "unset":
        check_now = True
    if check_now == "unset":
        check_now = False
    t0 = case["call_at"] if form == "wait" else 0.0
    timeout = case["timeout"] if form == "wait" else None
    # state of e0 at trigger start
    cur = {"true": "on", "false": "off", "missing": None}[cfg["init"]]
    attrs = {}
    snap = lambda: None if cur is None else {"s": cur, "a": dict(attrs)}  # noqa: E731
    evs = []
    for i, e in enumerate(case["events"]):
        old = snap()
        if e["op"] == "val":
            cur = e["v"]
        elif e["op"] == "attr":
            if cur is None:
                continue
            attrs["a1"] = e["a"]
        elif e["op"] == "del":
            if cur is None:
                continue
            cur, attrs = None, {}
        else:
            continue
        new = snap()
        if old == new:
            continue
        evs.append({"t": e["t"], "i": i, "old": old, "new": new, "evaluates": (old or {}).get("s") != (new or {}).get("s")})
    # value at trigger start (events before t0 already applied)
    start_val = {"true": "on", "false": "off", "missing": None}[cfg["init"]]
    for e in evs:
        if e["t"] < t0:
            start_val = (e["new"] or {}).get("s")
    stats = {"holds": 0, "false_holds": 0, "evals": 0}
    occ = []
    false_since = None
    pending = None  # (t_start, kw)
    extra = {"dec": 0} if form == "dec" else {}

    def occurrence(t, kw):
        nonlocal pending
        if S is None:
            occ.append({"t": t, "kw": kw})
            return
        if pending is None:
            pending = (t, kw)
            stats["holds"] += 1

    if check_now or H is not None:
        v = truth(start_val)
        stats["evals"] += 1
        if H is not None:
            false_since = None if v else t0
            if not v:
                stats["false_holds"] += 1
        if check_now and v:
            occurrence(t0, {"trigger_type": "state", **extra})
    done = False
    for e in evs:
        if e["t"] < t0:
            continue
        if form == "wait" and occ:
            break
        # hold expiry before this event?
        if pending is not None and pending[0] + S < e["t"]:
            occ.append({"t": pending[0] + S, "kw": pending[1]})
            pending = None
            if form == "wait":
                break
        if timeout is not None and t0 + timeout < e["t"]:
            break
        if not e["evaluates"]:
            continue
        stats["evals"] += 1
        v = truth((e["new"] or {}).get("s"))
        kw = {"trigger_type": "state", "var_name": "pyscript.e0", "value": e["new"], "old_value": e["old"], "context": f"ev{e['i']}", **extra}
        if v:
            if H is not None:
                if false_since is None:
                    continue
                ok = e["t"] - false_since >= H
                false_since = None
                if not ok:
                    continue
            occurrence(e["t"], kw)
        else:
            if pending is not None:
                pending = None
            if H is not None and false_since is None:
                false_since = e["t"]
                stats["false_holds"] += 1
    if pending is not None and not (form == "wait" and occ):
        occ.append({"t": pending[0] + S, "kw": pending[1]})
        pending = None
    if form == "wait":
        first = occ[0] if occ else None
        if timeout is not None and (first is None or first["t"] > t0 + timeout):
            first = {"t": t0 + timeout, "kw": {"trigger_type": "timeout"}}
        occ = [first] if first else []
    return occ, stats


def run_case(case):
    from ..sim import run_world

    exp, stats = timeline(case)
    cfg = case["cfg"]
    script = render_script(case)
    init = {"true": "on", "false": "off", "missing": None}[cfg["init"]]

    def pre(w):
        if init is not None:
            w.hass.states.async_set("pyscript.e0", init, {})
        w.hass.states.async_set("pyscript.e1", "0", {})

    async def main(w):
        from homeassistant.core import Context

        todo = [(e["t"], "ev", i, e) for i, e in enumerate(case["events"])]
        if cfg["form"] == "wait":
            todo.append((case["call_at"], "call", -1, None))
        todo.sort(key=lambda x: x[0])
        for t, kind, i, e in todo:
            await w.at(t)
            if kind == "call":
                w.hass.async_create_task(w.hass.services.async_call("pyscript", "waiter", {}, blocking=True))
                await w.settle()
                continue
            ctx = Context(id=f"ev{i}")
            st = w.hass.states.get("pyscript.e0")
            if e["op"] == "val":
                w.hass.states.async_set("pyscript.e0", e["v"], dict(st.attributes) if st else {}, context=ctx)
            elif e["op"] == "attr":
                if st is not None:
                    w.hass.states.async_set("pyscript.e0", st.state, {"a1": e["a"]}, context=ctx)
            elif e["op"] == "del":
                if st is not None:
                    w.hass.states.async_remove("pyscript.e0", context=ctx)
            else:
                w.hass.states.async_set("pyscript.e1", e["v"], {}, context=ctx)
            await w.settle()
        last = max([x[0] for x in todo] + [0])
        await w.at(last + 8.0)

    w, _ = run_world(main, files={"c05.py": script}, legacy=case["legacy"], tick=case["tick"], pre_setup=pre, keep=True)
    viol = []
    companion_obs = int(bool(case.get("companion")))
    if cfg["form"] == "dec":
        got = [{"t": r["t"] - w.epoch, "kw": r["kw"]} for r in w.rec if r["tag"] == "run" and r["kw"].get("dec") != "time"]
        if case.get("companion"):
            tr = [r["t"] - w.epoch for r in w.rec if r["tag"] == "run" and r["kw"].get("dec") == "time"]
            end = max([e["t"] for e in case["events"]] + [0]) + 8.0
            want = []
            k = 0
            cut = end - 1.0  # (the last period before the run ends is not judged)
            while any(abs(0.7 + 1.3 * j - cut) < 0.2 for j in range(60)):
                cut -= 0.25
            while 0.7 + 1.3 * k <= cut:
                want.append(0.7 + 1.3 * k)
                k += 1
            tr = [x for x in tr if x <= cut]
            if len(tr) != len(want) or any(abs(a - b) > 0.06 for a, b in zip(tr, want)):
                viol.append({"mech": "time_trigger_disturbed_by_state_hold", "msg": f"cfg={cfg} legacy={case['legacy']}: time trigger period(now+0.7s, 1.3s) ran at {[round(x, 3) for x in tr][:12]}, expected {[round(x, 3) for x in want][:12]} ({len(tr)} vs {len(want)} runs)"})
    else:
        calls = [r for r in w.rec if r["tag"] == "call"]
        rets = [r for r in w.rec if r["tag"] == "ret"]
        got = [{"t": r["t"] - w.epoch, "kw": r["r"]} for r in rets]
        if len(calls) != 1:
            return {"verdict": "inconclusive", "why": f"waiter service ran {len(calls)} times"}
    feats = []
    desc = f"cfg={cfg} legacy={case['legacy']} call_at={case['call_at']} timeout={case['timeout']}"
    if len(got) != len(exp):
        mech = "run_missing" if len(got) < len(exp) else "run_extra"
        if cfg["form"] == "wait":
            mech = "wait_until_no_return" if len(got) < len(exp) else "wait_until_unexpected_return"
        viol.append({"mech": mech, "msg": f"{desc}: expected {[(round(o['t'],3), o['kw'].get('context', o['kw'].get('trigger_type'))) for o in exp]} got {[(round(o['t'],3), (o['kw'] or {}).get('context', (o['kw'] or {}).get('trigger_type'))) for o in got]}"})
    else:
        for g, e in zip(got, exp):
            tol_lo = -0.06 if e["t"] == 0.0 else -0.010
            if not (tol_lo <= g["t"] - e["t"] <= 0.010):
                viol.append({"mech": "run_at_wrong_time", "msg": f"{desc}: expected t={e['t']} got t={g['t']:.6f} kw={g['kw']}"})
                break
            if g["kw"] != e["kw"]:
                mech = "hold_args_not_first_event" if cfg["hold"] is not None and (g["kw"] or {}).get("trigger_type") == "state" else "run_wrong_kwargs"
                viol.append({"mech": mech, "msg": f"{desc}: at t={e['t']} expected kw {e['kw']} got {g['kw']}"})
                break
    errs = w.logs(level="ERROR")
    if errs:
        viol.append({"mech": "unexpected_error_log", "msg": str(errs[:2])[:1200]})
    if w.escapes:
        viol.append({"mech": "escaped_exception", "msg": str(w.escapes[:3])[:1200]})
    cell = f"cn={cfg['check_now']}|hold={'S' if cfg['hold'] else cfg['hold']}|hf={'H' if cfg['hold_false'] else cfg['hold_false']}|init={cfg['init']}|{cfg['form']}|{'legacy' if case['legacy'] else 'default'}"
    return {
        "verdict": "violated" if viol else "held",
        "violations": viol,
        "features": feats,
        "nontrivial": stats["holds"] + stats["false_holds"] > 0,
        "obs": {
            "runs_observed": len(got) if cfg["form"] == "dec" else 0,
            "wait_until_returns": len(got) if cfg["form"] == "wait" else 0,
            "holds_started": stats["holds"],
            "false_holds_started": stats["false_holds"],
            "evaluations_modelled": stats["evals"],
            "companion_time_trigger_cases": companion_obs,
            "legacy_cases": int(case["legacy"]),
            "default_cases": int(not case["legacy"]),
        },
        "cover": {"config_cells": [cell]},
        "sig": cell + "|" + "".join(e["op"][0] for e in case["events"]),
    }


def sample(case, res):
    return {"script": render_script(case), "legacy": case["legacy"], "events": case["events"], "call_at": case["call_at"], "expected": timeline(case)[0]}
