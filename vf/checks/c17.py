"""C17 — import and builtin restrictions hold for every import form."""

from __future__ import annotations

import importlib
import random
import sys

ID = "C17"
LEVEL = "exploration"
BUDGET = {"quick": 50, "thorough": 600}
FLOOR = {"quick": 2000, "thorough": 2000}  # conclusive cases below which a run is inconclusive (the thorough tier is time-budgeted: same floor)
TIMEOUT = 180
REQUIRED_OBS = ["statements_checked", "disallowed_rejected", "allowed_imported", "allow_all_statements", "exec_forms", "pyscript_module_imports", "stubs_imports", "builtins_checked", "option_flips"]
RULE = (
    "every name in sys.stdlib_module_names + every installed top-level distribution + sampled submodules + near-misses of allow-listed names "
    "(prefix, suffix, case, dotted parent/child) + names shadowing files under pyscript/modules and pyscript/apps, x the statement forms "
    "`import a`, `import a.b`, `import a as x`, `from a import b`, `from a import *`, two-name imports mixing an allow-listed and a forbidden "
    "module in both orders, each executed directly and through exec(source), x allow_all_imports {False, True}; plus flipping the option on "
    "a live context. Oracle: allowed <=> exact member of const.ALLOWED_IMPORTS or pyscript module/app or from-import below `stubs`; otherwise "
    "ModuleNotFoundError, no new global bound, no new sys.modules entry; when allowed (or allow_all_imports) the same success / exception "
    "type as CPython's own import of that statement. Builtins open/compile/input/breakpoint/memoryview raise NameError as plain names, "
    "print/log write a record on the script's logger. With allow_all_imports=False the name space is enumerated completely."
)
ASSUMPTIONS = [
    "with allow_all_imports=True only modules already imported in the worker or on a curated safe stdlib list are imported (side-effectful "
    "modules such as antigravity, this, idlelib, tkinter, turtle are skipped)",
    "const.ALLOWED_IMPORTS is a parameter of the property (read from the tree under test)",
]
EXHAUSTIVE_SUBSPACES = {"quick": ["stdlib + installed top-level module names x 5 statement forms, allow_all_imports=False (complete)"], "thorough": ["same, plus exec() forms for every name"]}
SAFE_STDLIB = ["os", "os.path", "sys", "collections", "itertools", "base64", "heapq", "bisect", "textwrap", "struct", "uuid", "enum", "copy", "operator", "types", "abc", "html", "shlex", "fnmatch", "glob", "pathlib", "socket", "subprocess", "shutil"]
ATTR_OF = {"json": "dumps", "math": "sqrt", "re": "compile", "datetime": "timedelta", "random": "choice", "time": "monotonic", "os": "getcwd", "os.path": "join", "sys": "version", "collections": "OrderedDict", "itertools": "chain", "functools": "partial", "string": "digits", "statistics": "mean", "decimal": "Decimal", "fractions": "Fraction", "cmath": "pi", "homeassistant.const": "STATE_ON", "voluptuous": "Schema"}


def warm():
    from ..warm import warm as _w

    _w()


def all_names():
    import importlib.metadata as md

    names = set(sys.stdlib_module_names)
    try:
        names |= set(md.packages_distributions().keys())
    except Exception:  # noqa: BLE001
        pass
    names = {n for n in names if n and n.replace("_", "a").replace(".", "a").isalnum() and not n[0].isdigit()}
    names |= {"os.path", "json.decoder", "xml.etree", "xml.etree.ElementTree", "homeassistant", "homeassistant.core", "homeassistant.const", "homeassistant.helpers", "email.mime", "urllib.request", "importlib.util", "concurrent.futures", "logging.handlers", "datetime.datetime", "math.sqrt"}
    return sorted(names)


def near_misses(allowed):
    out = set()
    for a in allowed:
        out |= {a[:-1], a + "x", a + "2", a.upper(), a.capitalize(), a + ".sub", "x" + a, a.split(".")[0] if "." in a else a + ".x"}
    return sorted(n for n in out if n and n not in allowed and n.replace(".", "a").replace("_", "a").isalnum() and not n[0].isdigit())


def statements(name, attr=None):
    """The five statement forms for a module name; returns list of (form, src, names the statement would bind)."""
    top = name.split(".")[0]
    a = attr or "zz_attr"
    out = [
        ("import", f"import {name}", [top]),
        ("import_as", f"import {name} as alias_x", ["alias_x"]),
        ("from_import", f"from {name} import {a}", [a]),
        ("from_star", f"from {name} import *", None),
    ]
    if "." not in name:
        out.append(("import_sub", f"import {name}.sub_q", [top]))
    return out


def generate(tier, seed, gated=frozenset()):
    names = all_names()
    rng = random.Random(f"C17-{tier}-{seed}")
    for start in range(0, len(names), 150):
        yield {"part": "enum", "names": names[start : start + 150], "allow_all": False, "exec_every": 6 if tier == "quick" else 1}
    yield {"part": "near", "allow_all": False}
    yield {"part": "pymods", "allow_all": False}
    yield {"part": "pymods", "allow_all": True}
    yield {"part": "builtins", "legacy": False}
    yield {"part": "flip"}
    yield {"part": "allow_all", "names": SAFE_STDLIB + sorted(ATTR_OF)}
    # random re-sampling with different pairings for the two-name forms
    i = 0
    while True:
        sample = rng.sample(names, 60)
        yield {"part": "pairs", "names": sample, "seed": f"C17p-{tier}-{seed}-{i}"}
        i += 1
        if i > (3 if tier == "quick" else 40):
            return


def run_case(case):
    from .. import interp
    from ..sim import run_world

    part = case["part"]
    viol = []
    obs = {k: 0 for k in REQUIRED_OBS}
    unit_keys, nontrivial = [], []
    cover = {"forms": {}, "outcomes": {}}
    files = {"modules/mymod.py": "VALUE = 41\ndef f():\n    return VALUE + 1\n", "modules/stubstore.py": "def f():\n    return 77\n", "modules/pkg/rel1.py": "try:\n    from .subprocess import check_output\n    R = 'imported'\nexcept ImportError as exc:\n    R = type(exc).__name__\n", "modules/pkg/rel3.py": "try:\n    exec('from .shutil import rmtree as rm')\n    R = 'imported'\nexcept ImportError as exc:\n    R = type(exc).__name__\n", "modules/pkg/deep/__init__.py": "from . import rel2\n", "modules/pkg/deep/rel2.py": "try:\n    from ..socket import *\n    R = 'imported'\nexcept ImportError as exc:\n    R = type(exc).__name__\n", "modules/json.py": "SHADOW = 'pyscript json module'\n", "modules/pkg/__init__.py": "from .sub import SUBV\nfrom . import rel1, rel3\nfrom .deep import rel2\nTOP = 1\n", "modules/pkg/sub.py": "SUBV = 7\n", "apps/myapp/__init__.py": "from . import helper\nX = helper.H\n", "apps/myapp/helper.py": "H = 5\n"}
    files["c17trig.py"] = (
        "@event_trigger('c17ev', \"print('LEAK-STDOUT') is None\")\ndef by_filter(**kw):\n    vf.rec('trigrun', which='filter')\n\n"
        "@event_trigger('c17ev2')\n@state_active(\"open('/dev/null') is not None\")\ndef by_active(**kw):\n    vf.rec('trigrun', which='active')\n"
    )
    config = {"allow_all_imports": bool(case.get("allow_all", False)), "apps": {"myapp": {}}}
    if part in ("allow_all",):
        config["allow_all_imports"] = True

    async def check_stmt(src, expect_bind, allowed, label, cpython_oracle):
        """Run one statement under pyscript; verify outcome."""
        before_mods = set(sys.modules)
        ps = await interp.run_pyscript(src)
        after_mods = set(sys.modules)
        obs["statements_checked"] += 1
        key = f"{label}|{src}"
        unit_keys.append(key)
        bound = sorted(k for k in ps["globals"] if k not in ("r",))
        form = label.split(":")[0]
        cover["forms"][form] = cover["forms"].get(form, 0) + 1
        if not allowed:
            nontrivial.append(key)
            grew = sorted(m for m in after_mods - before_mods)
            if ps["exc"] != "ModuleNotFoundError":
                viol.append({"mech": "disallowed_import_succeeded" if ps["exc"] is None else "disallowed_import_wrong_exception", "msg": f"{label}: `{src}` gave {ps['exc']} (bound {bound})", "replay_case": dict(case)})
                return
            if bound:
                viol.append({"mech": "disallowed_import_bound_name", "msg": f"{label}: `{src}` raised but bound {bound}", "replay_case": dict(case)})
                return
            if grew:
                viol.append({"mech": "disallowed_import_loaded_module", "msg": f"{label}: `{src}` raised but sys.modules grew by {grew[:5]}", "replay_case": dict(case)})
                return
            obs["disallowed_rejected"] += 1
            cover["outcomes"]["rejected"] = cover["outcomes"].get("rejected", 0) + 1
            return
        if cpython_oracle:
            g = {}
            want = None
            try:
                exec(src, g)  # noqa: S102
            except Exception as e:  # noqa: BLE001
                want = type(e).__name__
            if (ps["exc"] is None) != (want is None) or (want is not None and ps["exc"] != want and {ps["exc"], want} != {"ImportError", "ModuleNotFoundError"}):
                viol.append({"mech": "allowed_import_differs_from_python", "msg": f"{label}: `{src}`: pyscript {ps['exc']} ({ps['exc_obj']!r}), CPython {want}", "replay_case": dict(case)})
                return
            dotted = src.startswith("import ") and "." in src and " as " not in src
            if want is None and dotted and bound == [src[len("import ") :]]:
                pass  # `import a.b` binds the dotted name "a.b" (only the allow-listed submodule becomes reachable), not the package `a`
            elif want is None and expect_bind is not None and sorted(expect_bind) != bound:
                viol.append({"mech": "allowed_import_bound_wrong_names", "msg": f"{label}: `{src}` bound {bound}, expected {expect_bind}", "replay_case": dict(case)})
                return
        obs["allowed_imported"] += 1
        cover["outcomes"]["allowed:" + str(ps["exc"])] = cover["outcomes"].get("allowed:" + str(ps["exc"]), 0) + 1

    async def main(w):
        from custom_components.pyscript.const import ALLOWED_IMPORTS

        allowed_set = set(ALLOWED_IMPORTS)
        pymods = {"mymod", "json", "pkg", "pkg.sub"}
        if part == "enum":
            n = 0
            for name in case["names"]:
                for form, src, binds in statements(name, ATTR_OF.get(name)):
                    mod = name + ".sub_q" if form == "import_sub" else name
                    allowed = mod in allowed_set or mod in pymods
                    await check_stmt(src, binds, allowed, f"{form}:{name}", cpython_oracle=allowed and mod not in pymods)
                    n += 1
                    if n % case["exec_every"] == 0:
                        obs["exec_forms"] += 1
                        await check_stmt(f"exec({src!r})", binds, allowed, f"exec_{form}:{name}", cpython_oracle=False)
        elif part == "near":
            for name in near_misses(allowed_set):
                for form, src, binds in statements(name):
                    mod = name + ".sub_q" if form == "import_sub" else name
                    await check_stmt(src, binds, mod in allowed_set or mod in pymods, f"near_{form}:{name}", cpython_oracle=False)
                    await check_stmt(f"exec({src!r})", binds, mod in allowed_set or mod in pymods, f"near_exec_{form}:{name}", cpython_oracle=False)
                    obs["exec_forms"] += 1
        elif part == "pairs":
            rng = random.Random(case["seed"])
            for name in case["names"]:
                if name in allowed_set or name.split(".")[0] in pymods or name.split(".")[0] in {a.split(".")[0] for a in allowed_set}:
                    continue  # (a forbidden child of an allow-listed package would legitimately leave the parent bound by the partner import)
                ok = rng.choice(sorted(a for a in allowed_set if a in ("json", "math", "re", "time", "datetime", "random", "string")))
                for src in (f"import {ok}, {name}", f"import {name}, {ok}", f"exec('import {ok}, {name}')", f"import {ok}\nimport {name}", f"from {ok} import *\nfrom {name} import *"):
                    ps = await interp.run_pyscript(src)
                    obs["statements_checked"] += 1
                    unit_keys.append(src)
                    nontrivial.append(src)
                    top = name.split(".")[0]
                    # (`from re import *` legitimately binds `enum`, an attribute of re: only a binding the partner cannot explain counts)
                    explained = src.startswith("from ") and hasattr(importlib.import_module(ok), top)
                    if ps["exc"] != "ModuleNotFoundError" or (top in ps["globals"] and not explained):
                        viol.append({"mech": "disallowed_import_succeeded", "msg": f"`{src}` gave {ps['exc']}, globals {sorted(ps['globals'])[:6]}", "replay_case": dict(case)})
                    else:
                        obs["disallowed_rejected"] += 1
        elif part == "pymods":
            progs = [
                ("import mymod\nr = mymod.f()", {"r": 42}),
                ("from mymod import f, VALUE\nr = f() + VALUE", {"r": 83}),
                ("from mymod import *\nr = f()", {"r": 42}),
                ("import json\nr = json.SHADOW", {"r": "pyscript json module"}),  # a pyscript module shadows the allow-listed one
                ("import pkg\nr = (pkg.TOP, pkg.SUBV)", {"r": ("tuple", [1, 7])}),
                ("from pkg.sub import SUBV\nr = SUBV", {"r": 7}),
                ("import pkg.sub as ps\nr = ps.SUBV", {"r": 7}),
                ("exec('import mymod')\nr = mymod.f()", {"r": 42}),
                ("from stubs.pyscript_builtins import state\nr = 1", {"r": 1}),
                ("from stubs import anything\nr = 2", {"r": 2}),
                ("from stubs.sub.deeper import *\nr = 3", {"r": 3}),
            ]
            for src, want in progs:
                ps = await interp.run_pyscript(src)
                obs["statements_checked"] += 1
                obs["pyscript_module_imports"] += 1
                obs["stubs_imports"] += int("stubs" in src)
                unit_keys.append(src + str(case["allow_all"]))
                nontrivial.append(src + str(case["allow_all"]))
                if ps["exc"] is not None or ps["globals"].get("r") != want["r"]:
                    viol.append({"mech": "pyscript_module_import_failed", "msg": f"allow_all={case['allow_all']} `{src}`: exc={ps['exc']} ({ps['exc_obj']!r}) r={ps['globals'].get('r')}", "replay_case": dict(case)})
            # names that merely begin with "stubs" are ordinary modules: forbidden unless they are pyscript modules
            for src, want in (("from stubs_extra import x", "ModuleNotFoundError"), ("from stubsxyz.sub import y", "ModuleNotFoundError"), ("import stubs_extra", "ModuleNotFoundError")):
                ps = await interp.run_pyscript(src)
                obs["statements_checked"] += 1
                obs["stubs_imports"] += 1
                if not case["allow_all"] and ps["exc"] != want:
                    viol.append({"mech": "disallowed_import_succeeded", "msg": f"`{src}` gave {ps['exc']} (only 'stubs' and 'stubs.*' are exempt)", "replay_case": dict(case)})
            ps = await interp.run_pyscript("from stubstore import f\nr = f()")
            obs["statements_checked"] += 1
            if ps["exc"] is not None or ps["globals"].get("r") != 77:
                viol.append({"mech": "pyscript_module_import_failed", "msg": f"`from stubstore import f` (a pyscript module whose name begins with 'stubs'): exc={ps['exc']} r={ps['globals'].get('r')}", "replay_case": dict(case)})
            # relative from-imports inside a package: a name that is not a sibling must not fall through to an installed module
            for src, want in (("import pkg\nr = pkg.rel1.R", "ModuleNotFoundError"), ("import pkg\nr = pkg.rel2.R", "ModuleNotFoundError"), ("import pkg\nr = pkg.rel3.R", "ModuleNotFoundError")):
                ps = await interp.run_pyscript(src)
                obs["statements_checked"] += 1
                obs["relative_import_checks"] = obs.get("relative_import_checks", 0) + 1
                got = ps["globals"].get("r")
                if not case["allow_all"] and (ps["exc"] is not None or got != want):
                    viol.append({"mech": "disallowed_import_succeeded", "msg": f"relative from-import of a forbidden module inside a package: `{src}` gave exc={ps['exc']} result {got!r} (expected the import to fail with {want})", "replay_case": dict(case)})
            for src in ("import stubs", "import stubs.x", "from stubs.x import y as z"):
                ps = await interp.run_pyscript(src)
                obs["statements_checked"] += 1
                if not case["allow_all"] and ps["exc"] != "ModuleNotFoundError":
                    viol.append({"mech": "disallowed_import_succeeded", "msg": f"`{src}` gave {ps['exc']}", "replay_case": dict(case)})
        elif part == "allow_all":
            for name in case["names"]:
                if name.split(".")[0] in pymods:
                    continue  # shadowed by a pyscript module of the same name (checked in the pymods part)
                for form, src, binds in statements(name, ATTR_OF.get(name)):
                    obs["allow_all_statements"] += 1
                    await check_stmt(src, binds, True, f"all_{form}:{name}", cpython_oracle=True)
                    await check_stmt(f"exec({src!r})", binds, True, f"all_exec_{form}:{name}", cpython_oracle=False)
        elif part == "builtins":
            for b in ("open", "compile", "input", "breakpoint", "memoryview"):
                for src in (
                    f"r = {b}",
                    f"r = [{b}]",
                    f"def f():\n    return {b}\nr = f()",
                    f"r = eval('{b}')",
                    # every scope in which a name can be looked up: declared global / nonlocal-free nested / class body / comprehension
                    f"def f():\n    global {b}\n    return {b}\nr = f()",
                    f"def f():\n    def g():\n        return {b}\n    return g()\nr = f()",
                    f"class K:\n    v = {b}\nr = K.v",
                    f"r = [{b} for _ in range(1)]",
                    f"exec('def f():\\n    global {b}\\n    return {b}\\nr = f()')",
                ):
                    ps = await interp.run_pyscript(src)
                    obs["builtins_checked"] += 1
                    unit_keys.append(src)
                    nontrivial.append(src)
                    if ps["exc"] != "NameError":
                        viol.append({"mech": "excluded_builtin_reachable", "msg": f"`{src}` gave {ps['exc']} r={ps['globals'].get('r')}", "replay_case": dict(case)})
            # the namespace of the builtins module must not leak into the script's globals (exec() of natively compiled
            # lambdas / @pyscript_compile functions puts it there)
            for src in (
                "f = lambda x: x\nr = __builtins__",
                "@pyscript_compile\ndef nat(x):\n    return x\nr = __builtins__['open']",
                "def g():\n    h = lambda: 0\n    return __builtins__\nr = g()",
                "f = lambda x: x\nr = globals().get('__builtins__')" if False else "f = lambda x: x\nr = eval('__builtins__')",
            ):
                ps = await interp.run_pyscript(src)
                obs["builtins_checked"] += 1
                unit_keys.append(src)
                nontrivial.append(src)
                if ps["exc"] != "NameError":
                    viol.append({"mech": "builtins_namespace_leaked_into_script_globals", "msg": f"`{src}` gave {ps['exc']} r={str(ps['globals'].get('r'))[:60]}", "replay_case": dict(case)})
            # names evaluated inside trigger / guard expression strings go through the same exclusion: neither the real print
            # (it would write to stdout) nor open() is reachable there
            import contextlib
            import io

            buf = io.StringIO()
            n0r = len(w.rec)
            with contextlib.redirect_stdout(buf):
                w.fire("c17ev", {})
                w.fire("c17ev2", {})
                await w.settle()
            obs["builtins_checked"] += 2
            ran = [r["which"] for r in w.rec[n0r:] if r["tag"] == "trigrun"]
            if "LEAK-STDOUT" in buf.getvalue() or ran:
                viol.append({"mech": "excluded_builtin_reachable", "msg": f"expression strings of triggers: stdout got {buf.getvalue()!r}, functions that ran although their expression must fail: {ran}"})
            ps = await interp.run_pyscript("import builtins as B")
            if ps["exc"] != "ModuleNotFoundError":
                viol.append({"mech": "disallowed_import_succeeded", "msg": "import builtins succeeded"})
            import logging

            logging.getLogger("custom_components.pyscript.prog").setLevel(logging.DEBUG)
            n0 = len(w.logtap.records)
            ps = await interp.run_pyscript("print('hello-print', 3)\nlog.info('hello-info')\nlog.warning('hello-warn %s', 5)\nlog.error('hello-err')\nr = print is not None")
            recs = [r for r in w.logtap.records[n0:] if r["name"].startswith("custom_components.pyscript.prog")]
            msgs = [(r["level"], r["msg"]) for r in recs]
            obs["builtins_checked"] += 4
            if ps["exc"] is not None or ("INFO", "hello-info") not in msgs or ("WARNING", "hello-warn 5") not in msgs or ("ERROR", "hello-err") not in msgs or not any(m[1].startswith("hello-print") for m in msgs):
                viol.append({"mech": "print_or_log_not_on_script_logger", "msg": f"exc={ps['exc']} records on the script's logger: {msgs}"})
        elif part == "flip":
            # a live context must follow the option when it is switched at run time (both directions)
            from custom_components.pyscript.eval import AstEval
            from custom_components.pyscript.function import Function
            from custom_components.pyscript.global_ctx import GlobalContext, GlobalContextMgr

            gctx = GlobalContext("jupyter_live", global_sym_table={"__name__": "live"}, manager=GlobalContextMgr)
            actx = AstEval("jupyter_live", gctx)
            Function.install_ast_funcs(actx)

            async def run(src):
                try:
                    actx.parse(src)
                    await actx.eval()
                    return None
                except Exception as e:  # noqa: BLE001
                    return type(e).__name__

            entry = w.entry
            seq = []
            for val in (False, True, False):
                data = dict(entry.data)
                data["allow_all_imports"] = val
                w.hass.config_entries.async_update_entry(entry, data=data)
                await w.settle()
                obs["option_flips"] += 1
                got = [await run("import shutil"), await run("from socket import gethostname"), await run("exec('import subprocess as sp')")]
                seq.append((val, got))
                want = [None, None, None] if val else ["ModuleNotFoundError"] * 3
                if got != want:
                    viol.append({"mech": "option_change_not_followed_by_live_context", "msg": f"allow_all_imports={val} on a live context: outcomes {got}, expected {want}; sequence {seq}"})
                    break
            nontrivial.append("flip")
            unit_keys.append("flip")

    run_world(main, files=files, config=config, legacy=bool(case.get("legacy", False)))
    return {
        "verdict": "violated" if viol else "held",
        "violations": viol[:20],
        "units": max(1, obs["statements_checked"] + obs["builtins_checked"] + obs["option_flips"]),
        "unit_keys": unit_keys,
        "nontrivial_keys": nontrivial,
        "nontrivial": bool(nontrivial),
        "obs": obs,
        "cover": cover,
    }


def sample(case, res):
    if case["part"] == "enum":
        return {"part": "enum", "statements": [s for n in case["names"][:2] for _, s, _ in statements(n)]}
    return {k: v for k, v in case.items() if k != "names"}
