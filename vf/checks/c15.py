"""C15 — task.wait_until returns for the first qualifying trigger and always cleans up."""

from __future__ import annotations

import asyncio
import datetime as dt
import random

ID = "C15"
LEVEL = "fault_enumeration"
BUDGET = {"quick": 55, "thorough": 900}
QUICK_CASES = 2000  # generator items in the quick tier (fixed amount of work; BUDGET is then only a safety cap)
FLOOR = {"quick": 600, "thorough": 600}  # conclusive cases below which a run is inconclusive (the thorough tier is time-budgeted: same floor)
TIMEOUT = 90
REQUIRED_OBS = ["waits", "returns_checked", "returned_state", "returned_event", "returned_time", "returned_timeout", "returned_none", "condition_exceptions", "cancel_points_injected", "residue_comparisons", "mqtt_webhook_waits"]
RULE = (
    "task.wait_until called from a service with generated combinations of state_trigger (expression over one entity, in every other case naming it by value, "
    ".old and attribute next to four more watched entities; optional "
    "state_check_now / state_hold), event_trigger (with/without filter, also a filter that raises), time_trigger (once(now+N), a past "
    "once() = no future instant), mqtt_trigger, webhook_trigger and timeout in {None, 0, T}, against timed histories of state changes / events "
    "/ messages before the call, during the wait and after the return, on the virtual clock, both subsystems. Oracle: composed reference "
    "models (first occurrence after the call wins; timeout; 'none'); return dictionary and return time (10 ms). Fault enumeration: the waiting "
    "task is cancelled (Function.reaper_cancel, as task.cancel / task.unique do) at every one of its suspension points. Residue monitor: "
    "state subscriptions, event/mqtt/webhook tables, bus listeners, broker subscriptions, registered webhooks and pyscript tasks after the "
    "task ended must equal the snapshot taken before the call, on every exit path. Non-trivial: the wait subscribed to something and "
    "exited by a non-immediate path."
)
ASSUMPTIONS = [
    "events at x.5 s, time triggers at x.25 s, timeouts at x.125 s after the call: no ties between conditions",
    "state_hold / state_hold_false depth is C05's subject; here state_hold only in {None, 1.6}",
]
SCRIPT = '''
@service
def waiter(args=None):
    vf.rec("call", serial=vf.task())
    try:
        r = task.wait_until(**args)
        vf.rec("ret", r=r)
    except Exception as e:
        vf.rec("exc", name=type(e).__name__)
    vf.rec("after")
'''


def warm():
    from ..warm import warm as _w

    _w()


def generate(tier, seed, gated=frozenset()):
    rng = random.Random(f"C15-{tier}-{seed}")
    i = 0
    while True:
        conds = {}
        if rng.random() < 0.6:
            conds["state"] = {"check_now": rng.choice(["unset", True, False]), "hold": rng.choice([None, None, 1.6])}
        if rng.random() < 0.5:
            conds["event"] = {"filt": rng.choice([None, "x == 1", "x > 1", "zz == 1"])}
        if rng.random() < 0.45:
            conds["time"] = rng.choice([{"k": "in", "n": rng.choice([2, 5, 9])}, {"k": "past"}, {"k": "two", "n": rng.choice([3, 7])}])
        if rng.random() < 0.2:
            conds["mqtt"] = {"filt": rng.choice([None, "payload == 'go'"])}
        if rng.random() < 0.2:
            conds["webhook"] = {}
        if not conds and rng.random() < 0.7:
            conds["event"] = {"filt": None}
        timeout = rng.choice([None, None, 0, 4.125, 11.125])
        call_at = rng.choice([1.0, 3.0])
        init = rng.choice(["on", "off", None])
        evs = []
        t = 0.5
        for _ in range(rng.randint(3, 10)):
            t += rng.choice([1, 1, 2, 3])
            k = rng.random()
            if k < 0.4:
                evs.append({"t": t, "op": "state", "v": rng.choice(["on", "off", "hot", "cold"])})
            elif k < 0.55:
                evs.append({"t": t, "op": "attr", "a": rng.randint(0, 9)})
            elif k < 0.8:
                evs.append({"t": t, "op": "event", "x": rng.choice([0, 1, 2]), "etype": rng.choice(["evw", "evw", "other"])})
            elif k < 0.9:
                evs.append({"t": t, "op": "mqtt", "payload": rng.choice(["go", "no"]), "topic": rng.choice(["w/a", "w/b"])})
            else:
                evs.append({"t": t, "op": "webhook", "hook": rng.choice(["hookw", "hookx"]), "v": rng.randint(0, 9)})
        for legacy in (False, True):
            yield {"conds": conds, "timeout": timeout, "call_at": call_at, "init": init, "events": evs, "legacy": legacy, "tick": rng.choice([1e-6, 5e-6, 5e-5]), "n": i, "max_points": 8 if tier == "quick" else 30}
        i += 1


def build_args(case, start_local):
    c = case["conds"]
    args = {}
    if "state" in c:
        args["state_trigger"] = "pyscript.e0 == 'on' or pyscript.e0 == 'hot'"
        if case.get("n", 0) % 2:
            # the same condition, but the expression names the entity in three ways (value, .old, attribute) next to four other
            # entities: the clause is never true, it only adds subscriptions that must all be gone after the call
            args["state_trigger"] += " or (pyscript.e0.old == 'zzz' and pyscript.e0.noattr == 1 and pyscript.g9 == 'zzz' and pyscript.g8 == 'zzz' and pyscript.g7.a == 1 and pyscript.g6 == 'zzz')"
        if c["state"]["check_now"] != "unset":
            args["state_check_now"] = c["state"]["check_now"]
        if c["state"]["hold"] is not None:
            args["state_hold"] = c["state"]["hold"]
    if "event" in c:
        args["event_trigger"] = ["evw", c["event"]["filt"]] if c["event"]["filt"] else "evw"
    if "time" in c:
        k = c["time"]
        if k["k"] == "in":
            args["time_trigger"] = f"once(now + {k['n']}.25s)"
        elif k["k"] == "past":
            args["time_trigger"] = "once(2020/1/1 0:00)"
        else:
            args["time_trigger"] = [f"once(now + {k['n'] + 4}.25s)", f"once(now + {k['n']}.25s)"]
    if "mqtt" in c:
        args["mqtt_trigger"] = ["w/a", c["mqtt"]["filt"]] if c["mqtt"]["filt"] else "w/a"
    if "webhook" in c:
        args["webhook_trigger"] = "hookw"
    if case["timeout"] is not None:
        args["timeout"] = case["timeout"]
    return args


def model(case):
    """First occurrence after the call.  Returns dict(kind, t, kw-ish) with t relative to epoch."""
    c = case["conds"]
    t0 = case["call_at"]
    cur = case["init"]
    attrs = {}
    truth = lambda v: v in ("on", "hot")  # noqa: E731
    # apply history before the call
    hist = []
    for i, e in enumerate(case["events"]):
        hist.append((e["t"], i, e))
    state_at_call = cur
    attrs_at_call = {}
    for t, i, e in hist:
        if t >= t0:
            break
        if e["op"] == "state":
            state_at_call = e["v"]
        elif e["op"] == "attr" and state_at_call is not None:
            attrs_at_call = {"a1": e["a"]}
    cands = []
    if not c:
        if case["timeout"] is not None:
            return {"kind": "timeout", "t": t0 + case["timeout"]}
        return {"kind": "none", "t": t0}
    if "time" in c:
        k = c["time"]
        if k["k"] != "past":
            cands.append({"kind": "time", "t": t0 + k["n"] + 0.25})
    exc = None
    if "state" in c:
        cn = c["state"]["check_now"]
        cn = True if cn == "unset" else cn
        hold = c["state"]["hold"]
        cur, attrs = state_at_call, dict(attrs_at_call)
        pending = None
        if cn and truth(cur):
            if hold is None:
                cands.append({"kind": "state", "t": t0, "kw": {"trigger_type": "state"}})
            else:
                pending = (t0, {"trigger_type": "state"})
        if not (cn and truth(cur) and hold is None):
            for t, i, e in hist:
                if t < t0:
                    continue
                if pending is not None and pending[0] + hold < t:
                    break
                if e["op"] == "attr":
                    if cur is not None:
                        attrs = {"a1": e["a"]}
                    continue
                if e["op"] != "state" or e["v"] == cur:
                    continue
                old = None if cur is None else {"s": cur, "a": dict(attrs)}
                cur = e["v"]
                new = {"s": cur, "a": dict(attrs)}
                kw = {"trigger_type": "state", "var_name": "pyscript.e0", "value": new, "old_value": old, "context": f"ev{i}"}
                if truth(cur):
                    if hold is None:
                        cands.append({"kind": "state", "t": t, "kw": kw})
                        break
                    if pending is None:
                        pending = (t, kw)
                else:
                    pending = None
            if pending is not None:
                cands.append({"kind": "state", "t": pending[0] + hold, "kw": pending[1]})
    if "event" in c:
        f = c["event"]["filt"]
        for t, i, e in hist:
            if t < t0 or e["op"] != "event" or e["etype"] != "evw":
                continue
            if f == "zz == 1":
                cands.append({"kind": "exception", "t": t, "name": "NameError"})
                break
            ok = True if f is None else (e["x"] == 1 if f == "x == 1" else e["x"] > 1)
            if ok:
                cands.append({"kind": "event", "t": t, "kw": {"trigger_type": "event", "event_type": "evw", "context": f"ev{i}", "x": e["x"]}})
                break
    if "mqtt" in c:
        f = c["mqtt"]["filt"]
        for t, i, e in hist:
            if t < t0 or e["op"] != "mqtt" or e["topic"] != "w/a":
                continue
            if f is None or e["payload"] == "go":
                cands.append({"kind": "mqtt", "t": t, "kw": {"trigger_type": "mqtt", "topic": "w/a", "payload": e["payload"], "qos": 0, "retain": False}})
                break
    if "webhook" in c:
        for t, i, e in hist:
            if t < t0 or e["op"] != "webhook" or e["hook"] != "hookw":
                continue
            cands.append({"kind": "webhook", "t": t, "kw": {"trigger_type": "webhook", "webhook_id": "hookw", "payload": {"v": e["v"]}}})
            break
    if case["timeout"] is not None:
        cands.append({"kind": "timeout", "t": t0 + case["timeout"], "prio": 1})
    if not cands:
        only_time = set(c) == {"time"}
        return {"kind": "none", "t": t0} if only_time else {"kind": "never", "t": None}
    return min(cands, key=lambda x: (x["t"], x.get("prio", 0)))


def execute(case, cancel_at=None):
    from ..residue import snapshot
    from ..sim import CountingTask, run_world, task_serial

    state = {"victim_serial": None, "steps": 0, "fired": False}
    snaps = {}

    def pre(w):
        if case["init"] is not None:
            w.hass.states.async_set("pyscript.e0", case["init"], {})

    async def main(w):
        import json

        from custom_components.pyscript.function import Function
        from homeassistant.components import webhook
        from homeassistant.core import Context
        from homeassistant.util.aiohttp import MockRequest

        def on_suspend(task, n):
            if task.vf_serial == state["victim_serial"]:
                state["steps"] = n
                if cancel_at is not None and n == cancel_at and not state["fired"]:
                    state["fired"] = True
                    w._rec("inject", n=n)
                    Function.reaper_cancel(task)

        CountingTask.on_suspend = on_suspend
        args = build_args(case, None)
        todo = sorted([(e["t"], 1, i, e) for i, e in enumerate(case["events"])] + [(case["call_at"], 0, -1, None)], key=lambda x: (x[0], x[1]))
        call = None
        for t, kind, i, e in todo:
            await w.at(t)
            if kind == 0:
                await w.quiesce()
                snaps["before"] = snapshot(w)
                call = w.loop.create_task(_call(w, args))
                for _ in range(50):
                    await asyncio.sleep(0)
                    r = [x for x in w.rec if x["tag"] == "call"]
                    if r:
                        state["victim_serial"] = r[0]["serial"]
                        break
                await w.settle()
                continue
            ctx = Context(id=f"ev{i}")
            st = w.hass.states.get("pyscript.e0")
            if e["op"] == "state":
                w.hass.states.async_set("pyscript.e0", e["v"], dict(st.attributes) if st else {}, context=ctx)
            elif e["op"] == "attr":
                if st is not None:
                    w.hass.states.async_set("pyscript.e0", st.state, {"a1": e["a"]}, context=ctx)
            elif e["op"] == "event":
                w.hass.bus.async_fire(e["etype"], {"x": e["x"]}, context=ctx)
            elif e["op"] == "mqtt":
                w.broker.publish(e["topic"], e["payload"], 0, False)
            elif e["op"] == "webhook":
                req = MockRequest(content=json.dumps({"v": e["v"]}).encode(), mock_source="vf", method="POST", headers={"Content-Type": "application/json"})
                w.hass.async_create_task(webhook.async_handle_webhook(w.hass, e["hook"], req))
            await w.settle()
        last = max(x[0] for x in todo)
        await w.at(last + 14.0)
        await w.quiesce()
        CountingTask.on_suspend = None
        snaps["after"] = snapshot(w)
        snaps["call_done"] = call.done() if call else None
        if call and not call.done():
            call.cancel()

    async def _call(w, args):
        try:
            await w.hass.services.async_call("pyscript", "waiter", {"args": args}, blocking=True)
        except (asyncio.CancelledError, Exception):  # noqa: BLE001
            pass

    w, _ = run_world(
        main,
        files={"c15.py": SCRIPT},
        legacy=case["legacy"],
        tick=case["tick"],
        pre_setup=pre,
        mqtt=True,
        webhook=True,
        extra_functions={"vf.task": lambda t=None: task_serial(t)},
        keep=True,
    )
    return w, snaps, state


def check(case, w, snaps, state, cancel_at):
    from ..residue import diff

    viol = []
    obs = {k: 0 for k in REQUIRED_OBS}
    obs["waits"] = 1
    exp = model(case)
    rets = [r for r in w.rec if r["tag"] == "ret"]
    excs = [r for r in w.rec if r["tag"] == "exc"]
    fired = state["fired"]
    desc = f"args={build_args(case, None)} call_at={case['call_at']} init={case['init']} legacy={case['legacy']} events={[(e['t'], e['op'], e.get('v', e.get('x', e.get('payload')))) for e in case['events']]}"
    if not fired:
        obs["returns_checked"] = 1
        if exp["kind"] == "never":
            if rets or excs:
                viol.append({"mech": "wait_until_unexpected_return", "msg": f"expected to keep waiting; got {rets or excs}; {desc}"})
        elif exp["kind"] == "exception":
            obs["condition_exceptions"] = 1
            if not excs or excs[0]["name"] != exp["name"]:
                viol.append({"mech": "wait_until_condition_exception_not_raised", "msg": f"expected {exp['name']} at t={exp['t']}; got rets={rets} excs={excs}; {desc}"})
        else:
            if len(rets) != 1:
                viol.append({"mech": "wait_until_no_return" if not rets else "wait_until_returned_twice", "msg": f"expected {exp}; rets={rets} excs={excs}; {desc}"})
            else:
                r = rets[0]
                t = r["t"] - w.epoch
                got = r["r"]
                obs["returned_" + exp["kind"]] = 1 if ("returned_" + exp["kind"]) in obs else 0
                if exp["kind"] in ("mqtt", "webhook"):
                    obs["mqtt_webhook_waits"] = 1
                if abs(t - exp["t"]) > 0.012:
                    viol.append({"mech": "wait_until_returned_at_wrong_time", "msg": f"expected {exp['kind']} at t={exp['t']}, returned {got} at t={t:.4f}; {desc}"})
                else:
                    if exp["kind"] == "timeout":
                        want = {"trigger_type": "timeout"}
                    elif exp["kind"] == "none":
                        want = {"trigger_type": "none"}
                    elif exp["kind"] == "time":
                        want = None
                        if not (isinstance(got, dict) and got.get("trigger_type") == "time" and "trigger_time" in got):
                            viol.append({"mech": "wait_until_wrong_result", "msg": f"expected a time trigger result, got {got}; {desc}"})
                        else:
                            tt = dt.datetime.fromisoformat(got["trigger_time"])
                            want_tt = w.clock.base.astimezone(w.clock.tz).replace(tzinfo=None) + dt.timedelta(seconds=w.epoch + exp["t"])
                            if abs((tt - want_tt).total_seconds()) > 0.05:
                                viol.append({"mech": "wait_until_wrong_result", "msg": f"trigger_time {tt} expected about {want_tt}; {desc}"})
                    else:
                        want = exp["kw"]
                    if want is not None:
                        g = dict(got) if isinstance(got, dict) else got
                        if isinstance(g, dict) and exp["kind"] == "mqtt":
                            g.pop("payload_obj", None)
                        if g != want:
                            viol.append({"mech": "wait_until_wrong_result", "msg": f"expected {want} got {got}; {desc}"})
    else:
        obs["cancel_points_injected"] = 1
        after = [r for r in w.rec if r["tag"] == "after" and r["seq"] > [x for x in w.rec if x["tag"] == "inject"][0]["seq"]]
        # a cancelled waiter must not carry on (unless it had already returned when the cancel landed in the epilogue)
    obs["residue_comparisons"] = 1
    d = diff(snaps["after"], snaps["before"])
    if d:
        path = "cancelled while waiting" if fired else (exp["kind"] if exp["kind"] != "never" else "still waiting")
        if not (exp["kind"] == "never" and not fired):
            viol.append({"mech": "wait_until_residue", "msg": f"exit path '{path}' (cancel at suspension {cancel_at}): residue differs from the snapshot before the call: {d}; {desc}"})
    errs = [r for r in w.logs(level="ERROR") if "zz" not in r["msg"]]
    if errs:
        viol.append({"mech": "unexpected_error_log", "msg": str(errs[:2])[:900]})
    if w.escapes:
        viol.append({"mech": "escaped_exception", "msg": str(w.escapes[:2])[:900]})
    return viol, obs, exp


def run_case(case):
    w, snaps, state = execute(case, None)
    viol, obs, exp = check(case, w, snaps, state, None)
    n_points = state["steps"]
    points = list(range(1, n_points + 1))
    mp = case.get("max_points", 8)
    if len(points) > mp:
        step = len(points) / mp
        points = sorted({points[int(i * step)] for i in range(mp)} | {points[-1]})
    sigs = []
    for n in points:
        w2, snaps2, state2 = execute(case, n)
        v2, o2, _ = check(case, w2, snaps2, state2, n)
        viol += v2
        for k, val in o2.items():
            if k != "waits":
                obs[k] = obs.get(k, 0) + val
        sigs.append(str(n))
    seen, uniq = set(), []
    for v in viol:
        if v["mech"] not in seen:
            seen.add(v["mech"])
            uniq.append(v)
    return {
        "verdict": "violated" if uniq else "held",
        "violations": uniq,
        "nontrivial": bool(case["conds"]) and exp["kind"] not in ("none",) and not (exp.get("t") == case["call_at"]),
        "obs": dict(obs, legacy_cases=int(case["legacy"]), default_cases=int(not case["legacy"])),
        "cover": {"conditions": ["+".join(sorted(case["conds"])) or "none"], "exit": [exp["kind"]], "timeout": [str(case["timeout"])]},
        "sig": f"{sorted(case['conds'])}|{exp['kind']}|{case['timeout']}|{case['legacy']}|{len(points)}",
    }


def sample(case, res):
    return {"legacy": case["legacy"], "args": build_args(case, None), "call_at": case["call_at"], "init": case["init"], "events": case["events"][:6], "expected": model(case)}
