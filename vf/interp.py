"""Run the same source under CPython and under pyscript's AstEval; canonicalise and compare.

Used by the differential checks (C01, C02, C03, C11, C18).  The pyscript side is the observe point
the properties name: AstEval.parse() + AstEval.eval() on a fresh GlobalContext whose global symbol
table holds the same injected helpers as the CPython namespace.
"""

from __future__ import annotations

import asyncio
import math
import types


class Budget(BaseException):
    """Raised by the tracer when a program produces too many events (runaway loop guard)."""


class Tracer:
    def __init__(self, limit=400):
        self.log = []
        self.limit = limit

    def __call__(self, tag, v=None):
        self.log.append(tag)
        if len(self.log) >= self.limit:
            raise Budget()
        return v


def F(*a, **k):
    """Native callable returning its arguments (checks argument passing and evaluation order)."""
    return (a, k)


class Box:
    """Native object with plain attributes."""

    def __init__(self, **kw):
        self.__dict__.update(kw)

    def __repr__(self):
        return "Box(" + ", ".join(f"{k}={v!r}" for k, v in sorted(self.__dict__.items())) + ")"

    def __eq__(self, other):
        return isinstance(other, Box) and self.__dict__ == other.__dict__

    __hash__ = None


class TL(list):
    """Native list whose item reads, writes and deletions are logged through the tracer."""

    def __init__(self, T, items):
        super().__init__(items)
        self._T = T

    def __getitem__(self, i):
        self._T(f"getitem:{i!r}")
        return super().__getitem__(i)

    def __setitem__(self, i, v):
        self._T(f"setitem:{i!r}")
        super().__setitem__(i, v)

    def __delitem__(self, i):
        self._T(f"delitem:{i!r}")
        super().__delitem__(i)


class CM:
    """Native context manager that logs through the tracer."""

    def __init__(self, T, tag, suppress=False, fail_enter=False, fail_exit=False):
        self.T, self.tag, self.suppress, self.fail_enter, self.fail_exit = T, tag, suppress, fail_enter, fail_exit

    def __enter__(self):
        self.T(f"enter:{self.tag}")
        if self.fail_enter:
            raise KeyError(f"enter:{self.tag}")
        return self.tag

    def __exit__(self, et, ev, tb):
        self.T(f"exit:{self.tag}:{et.__name__ if et else None}")
        if self.fail_exit:
            raise IndexError(f"exit:{self.tag}")
        return self.suppress


class EA(Exception):
    pass


class EB(EA):
    pass


class EC(Exception):
    pass


def make_env(limit=400, extra=None):
    T = Tracer(limit)
    env = {"T": T, "F": F, "Box": Box, "EA": EA, "EB": EB, "EC": EC}
    env["CM"] = lambda tag, **kw: CM(T, tag, **kw)
    env["TL"] = lambda *items: TL(T, items)
    if extra:
        env.update(extra)
    return env, T


# ------------------------------------------------------------------ canonical form
def canon(v, depth=0, seen=None):
    seen = seen if seen is not None else set()
    if depth > 12:
        return "<deep>"
    if v is None or isinstance(v, (bool, int)):
        return v if not isinstance(v, int) or isinstance(v, bool) or abs(v) < 10**30 else ("bigint", v.bit_length(), v % 1000003)
    if isinstance(v, float):
        return ("float", "nan" if math.isnan(v) else repr(v))
    if isinstance(v, complex):
        return ("complex", repr(v))
    if isinstance(v, str):
        return v if type(v) is str else ("strsub", type(v).__name__, str(v))
    if isinstance(v, (bytes, bytearray)):
        return (type(v).__name__, bytes(v).hex())
    if id(v) in seen:
        return "<cycle>"
    if isinstance(v, (list, tuple)):
        seen = seen | {id(v)}
        return (type(v).__name__, [canon(x, depth + 1, seen) for x in v])
    if isinstance(v, (set, frozenset)):
        seen = seen | {id(v)}
        return (type(v).__name__, sorted((canon(x, depth + 1, seen) for x in v), key=repr))
    if isinstance(v, dict):
        seen = seen | {id(v)}
        return ("dict", [(canon(k, depth + 1, seen), canon(x, depth + 1, seen)) for k, x in v.items()])
    if isinstance(v, Box):
        seen = seen | {id(v)}
        return ("Box", sorted((k, canon(x, depth + 1, seen)) for k, x in v.__dict__.items()))
    if isinstance(v, range):
        return ("range", v.start, v.stop, v.step)
    if isinstance(v, slice):
        return ("slice", canon(v.start), canon(v.stop), canon(v.step))
    if isinstance(v, BaseException):
        return ("exc", type(v).__name__, canon(list(v.args), depth + 1, seen))
    if isinstance(v, type):
        return ("class", v.__name__)
    if isinstance(v, types.ModuleType):
        return ("module", v.__name__)
    tn = type(v).__name__
    if tn in ("EvalFuncVar", "EvalFunc", "EvalFuncVarClassInst", "function", "builtin_function_or_method", "method", "coroutine"):
        return "<func>"
    if callable(v) and not hasattr(v, "__dict__"):
        return "<func>"
    d = getattr(v, "__dict__", None)
    if d is not None and type(v).__module__ not in ("builtins",):
        seen = seen | {id(v)}
        return ("inst", type(v).__name__, sorted((k, canon(x, depth + 1, seen)) for k, x in d.items() if not k.startswith("__")))
    return ("obj", tn)


def canon_globals(g, skip):
    out = {}
    for k, v in g.items():
        if k.startswith("__") or k in skip:
            continue
        out[k] = canon(v)
    return out


def exc_family(name):
    if name in ("NameError", "UnboundLocalError"):
        return "NameError-family"
    return name


# ------------------------------------------------------------------ the two executions
def run_cpython(src, limit=400, extra=None, filename="<prog>"):
    env, T = make_env(limit, extra)
    skip = set(env)
    g = dict(env)
    g["__name__"] = "prog"
    exc = None
    try:
        code = compile(src, filename, "exec", dont_inherit=True)
    except (SyntaxError, ValueError) as e:
        return {"compile_error": type(e).__name__ + ": " + str(e)}
    try:
        exec(code, g)  # noqa: S102
    except Budget:
        exc = "Budget"
    except RecursionError:
        return {"compile_error": "RecursionError on CPython"}
    except Exception as e:  # noqa: BLE001
        exc = type(e).__name__
        g["__exc_obj__"] = e
    return {"exc": exc, "log": list(T.log), "globals": canon_globals(g, skip), "exc_obj": g.get("__exc_obj__")}


async def run_pyscript(src, limit=400, extra=None, name="prog", filename=None):
    from custom_components.pyscript.eval import AstEval
    from custom_components.pyscript.function import Function
    from custom_components.pyscript.global_ctx import GlobalContext, GlobalContextMgr

    env, T = make_env(limit, extra)
    skip = set(env)
    g = dict(env)
    g["__name__"] = "prog"
    global_ctx = GlobalContext(name, global_sym_table=g, manager=GlobalContextMgr)
    ast_ctx = AstEval(name, global_ctx)
    Function.install_ast_funcs(ast_ctx)
    exc = None
    exc_obj = None
    try:
        ast_ctx.parse(src, filename=filename)
        await ast_ctx.eval()
    except Budget:
        exc = "Budget"
    except Exception as e:  # noqa: BLE001
        exc = type(e).__name__
        exc_obj = e
    finally:
        try:
            global_ctx.stop()
        except Exception:  # noqa: BLE001
            pass
    return {"exc": exc, "log": list(T.log), "globals": canon_globals(g, skip), "exc_obj": exc_obj, "ast_ctx": ast_ctx}


def compare(py, ps, families=False):
    """Return list of (kind, detail) differences between a CPython and a pyscript result."""
    diffs = []
    e1, e2 = py["exc"], ps["exc"]
    if e1 == "Budget" and e2 == "Budget":
        # the tracer's own step budget ran out (a BaseException raised by the harness, not by the program): what the
        # unwinding then does (__exit__ arguments, finally blocks) is not judged; the trace up to that point is
        n = min(len(py["log"]), len(ps["log"]))
        k = 0
        while k < n and py["log"][k] == ps["log"][k]:
            k += 1
        # events recorded after the budget was hit come from unwinding: compare only the common prefix length minus those
        if k < n and not any(str(ev).startswith(("exit:", "enter:")) for ev in py["log"][k : k + 1] + ps["log"][k : k + 1]):
            diffs.append(("trace", f"first difference at event {k}: CPython {py['log'][k:k+6]} vs pyscript {ps['log'][k:k+6]}"))
        return diffs
    if families:
        e1, e2 = exc_family(e1), exc_family(e2)
    if e1 != e2:
        diffs.append(("exception", f"CPython {py['exc']} vs pyscript {ps['exc']}" + (f" ({ps['exc_obj']!r})" if ps.get("exc_obj") is not None else "")))
    if py["log"] != ps["log"]:
        n = 0
        while n < min(len(py["log"]), len(ps["log"])) and py["log"][n] == ps["log"][n]:
            n += 1
        diffs.append(("trace", f"first difference at event {n}: CPython {py['log'][n:n+6]} vs pyscript {ps['log'][n:n+6]}"))
    if not diffs or e1 == e2:
        g1, g2 = py["globals"], ps["globals"]
        if g1 != g2:
            bad = sorted(k for k in set(g1) | set(g2) if g1.get(k, "<unset>") != g2.get(k, "<unset>"))
            k = bad[0]
            diffs.append(("globals", f"{len(bad)} variable(s) differ, e.g. {k}: CPython {g1.get(k, '<unset>')!r} vs pyscript {g2.get(k, '<unset>')!r}"))
    return diffs


def run_batch_in_world(coro_factory, **world_kw):
    """Boot one real hass + pyscript (empty folder) and run `await coro_factory(world)` inside it."""
    from .sim import run_world

    return run_world(coro_factory, **world_kw)
