"""Worker pool (DESIGN 1.4, revised after measurement).

main (light; generates cases, aggregates results)
  └─ N workers, each a freshly exec'd interpreter (`python -m vf.worker <check module>`) that imports
     HA + pyscript once and then runs cases one after the other, resetting pyscript's class-level
     state to the pristine post-import snapshot before every case (vf.sim.reset_pristine).

Why not fork-per-case (the original design): in this sandbox copy-on-write faults of concurrently
running forked children serialise system-wide (measured: 16 children touching 150 MB each take 31 s,
one takes 1.9 s), so a fork pool gives no speed-up at all.  Strict isolation is kept as the
*confirmation* step: every case that ends violated is re-run alone in a brand-new interpreter
(`confirm_cases`) and only a confirmed violation is reported.
A worker that exceeds the per-batch watchdog is killed (cases -> inconclusive) and replaced.
"""

from __future__ import annotations

import json
import os
import select
import signal
import struct
import subprocess
import sys
import time

from . import REPO, VERIF


def _send(fd, obj):
    data = json.dumps(obj, default=repr).encode()
    data = struct.pack("<I", len(data)) + data
    off = 0
    while off < len(data):
        off += os.write(fd, data[off : off + (1 << 16)])


def _recv_exact(fd, n):
    buf = bytearray()
    while len(buf) < n:
        chunk = os.read(fd, n - len(buf))
        if not chunk:
            raise EOFError
        buf += chunk
    return bytes(buf)


def _recv(fd):
    (n,) = struct.unpack("<I", _recv_exact(fd, 4))
    return json.loads(_recv_exact(fd, n).decode())


class Worker:
    def __init__(self, modname, hashseed=None):
        env = dict(os.environ)
        env["PYTHONHASHSEED"] = str(hashseed if hashseed is not None else env.get("PYTHONHASHSEED", "0"))
        env["PYTHONDONTWRITEBYTECODE"] = "1"
        env["VERIF_REPO"] = REPO
        self.proc = subprocess.Popen(
            [sys.executable, "-m", "vf.worker", modname],
            stdin=subprocess.PIPE,
            stdout=subprocess.PIPE,
            cwd=VERIF,
            env=env,
        )
        self.w = self.proc.stdin.fileno()
        self.r = self.proc.stdout.fileno()
        self.busy = None
        self.t0 = 0.0
        self.dead = False
        self.hashseed = env["PYTHONHASHSEED"]

    def send(self, batch):
        _send(self.w, batch)
        self.busy = batch
        self.t0 = time.time()

    def kill(self):
        self.dead = True
        try:
            self.proc.kill()
        except Exception:  # noqa: BLE001
            pass
        try:
            self.proc.wait(timeout=5)
        except Exception:  # noqa: BLE001
            pass

    def close(self):
        if self.dead:
            return
        try:
            _send(self.w, None)
        except OSError:
            pass
        try:
            self.proc.stdin.close()
        except Exception:  # noqa: BLE001
            pass
        try:
            self.proc.wait(timeout=20)
        except Exception:  # noqa: BLE001
            self.kill()


def run_cases(modname, cases, *, jobs=None, timeout=60.0, batch=1, deadline=None, on_result=None, hashseeds=None):
    """Run cases (an iterable of JSON-able dicts) through exec'd workers of check module `modname`.

    on_result(case, result) is called in the main process.  deadline: absolute time.time() after which
    no new batch is handed out.  hashseeds: list of PYTHONHASHSEED values spread over the workers.
    """
    jobs = jobs or min(16, os.cpu_count() or 4)
    it = iter(cases)
    stats = {"batches": 0, "killed": 0, "cut_by_deadline": False, "workers": jobs, "hashseeds": []}
    exhausted = False

    def seed_for(i):
        if not hashseeds:
            return None
        return hashseeds[i % len(hashseeds)]

    workers = [Worker(modname, seed_for(i)) for i in range(jobs)]
    stats["hashseeds"] = sorted({w.hashseed for w in workers})

    def next_batch():
        nonlocal exhausted
        b = []
        while len(b) < batch and not exhausted:
            if deadline is not None and time.time() > deadline:
                exhausted = True
                stats["cut_by_deadline"] = True
                break
            try:
                b.append(next(it))
            except StopIteration:
                exhausted = True
        return b

    def feed(w):
        b = next_batch()
        if not b:
            return False
        try:
            w.send(b)
        except OSError:
            w.dead = True
            for case in b:
                on_result and on_result(case, {"verdict": "inconclusive", "why": "worker died before start"})
            return False
        stats["batches"] += 1
        return True

    try:
        for w in workers:
            if not feed(w):
                break
        while any(w.busy for w in workers):
            fds = {w.r: w for w in workers if w.busy}
            ready, _, _ = select.select(list(fds), [], [], 0.5)
            for fd in ready:
                w = fds[fd]
                b = w.busy
                w.busy = None
                try:
                    results = _recv(fd)
                except Exception:  # noqa: BLE001
                    w.kill()
                    results = [{"verdict": "inconclusive", "why": "worker died"} for _ in b]
                for case, res in zip(b, results):
                    res.setdefault("hashseed", w.hashseed)
                    on_result and on_result(case, res)
                if w.dead:
                    idx = workers.index(w)
                    workers[idx] = w = Worker(modname, seed_for(idx))
                if not exhausted:
                    feed(w)
            now = time.time()
            for i, w in enumerate(workers):
                if w.busy and now - w.t0 > timeout * len(w.busy) + 15:
                    b = w.busy
                    w.busy = None
                    try:
                        os.kill(w.proc.pid, signal.SIGABRT)  # faulthandler in the worker dumps stacks
                        time.sleep(0.3)
                    except Exception:  # noqa: BLE001
                        pass
                    w.kill()
                    stats["killed"] += 1
                    for case in b:
                        on_result and on_result(case, {"verdict": "inconclusive", "why": "watchdog: worker killed after timeout"})
                    workers[i] = Worker(modname, seed_for(i))
                    if not exhausted:
                        feed(workers[i])
    finally:
        for w in workers:
            w.close()
    return stats


def confirm_cases(modname, cases, *, timeout=120.0, jobs=None):
    """Re-run each case alone in a brand-new interpreter; returns list of results (same order)."""
    jobs = jobs or min(16, os.cpu_count() or 4)
    out = [None] * len(cases)
    pending = list(enumerate(cases))
    live = {}
    while pending or live:
        while pending and len(live) < jobs:
            i, case = pending.pop(0)
            w = Worker(modname)
            try:
                w.send([case])
                live[w.r] = (w, i)
            except OSError:
                out[i] = {"verdict": "inconclusive", "why": "confirm worker died"}
        ready, _, _ = select.select(list(live), [], [], 0.5)
        for fd in ready:
            w, i = live.pop(fd)
            try:
                out[i] = _recv(fd)[0]
            except Exception:  # noqa: BLE001
                out[i] = {"verdict": "inconclusive", "why": "confirm worker died"}
                w.kill()
            w.close()
        now = time.time()
        for fd, (w, i) in list(live.items()):
            if now - w.t0 > timeout + 30:
                live.pop(fd)
                w.kill()
                out[i] = {"verdict": "inconclusive", "why": "confirm watchdog"}
    return out
