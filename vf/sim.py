"""Real Home Assistant + pyscript, in process, on a virtual clock.

See DESIGN.md 1.2-1.5.  Nothing in here replaces pyscript logic: the only stand-ins are
the file watcher (no-op), HA's yaml loader (returns the case's config) and the time sources.
"""

from __future__ import annotations

import asyncio
import datetime as dt
import gc
import logging
import os
import selectors
import shutil
import sys
import tempfile
import types
import warnings
import weakref
from unittest.mock import patch

from . import repo_first

repo_first()

UTC = dt.timezone.utc


class VClock:
    """Virtual clock; monotonic seconds + a UTC base."""

    def __init__(self, start_utc: dt.datetime, tick: float = 5e-6):
        self.t0 = 1000.0
        self.t = self.t0
        self.base = start_utc.replace(tzinfo=UTC) if start_utc.tzinfo is None else start_utc
        self.tick = tick
        self.tz = None  # set after HA chose its zone
        # injected fault: the wall clock (what pyscript's dt_now() reads) runs slower (skew > 0) or faster (skew < 0)
        # than the monotonic clock that drives the event loop's timers, as it does while NTP slews the clock
        self.skew = 0.0

    def monotonic(self) -> float:
        return self.t

    @property
    def off(self) -> float:
        return self.t - self.t0

    def utc(self) -> dt.datetime:
        return self.base + dt.timedelta(seconds=(self.t - self.t0) * (1.0 - self.skew))

    def utc_at(self, off: float) -> dt.datetime:
        """Wall-clock UTC at monotonic offset `off` (the `t` of a record)."""
        return self.base + dt.timedelta(seconds=off * (1.0 - self.skew))

    def local_naive(self) -> dt.datetime:
        if self.skew:
            # part of the two-clock fault model: reading the clock takes time.  Without this the virtual clock stands
            # still during synchronous code, and a trigger that woke up 1 us before its instant (which the code tolerates,
            # datetime.now() truncates) would read the same microsecond again after dispatching - something real hardware
            # cannot do, and a false alarm the first run of this fault model raised (DESIGN 6.3)
            self.t += 2e-6
        return self.utc().astimezone(self.tz).replace(tzinfo=None)

    def utc_of_local_naive(self, naive: dt.datetime) -> dt.datetime:
        """Interpret a naive local datetime the way HA does (fold=0)."""
        return naive.replace(tzinfo=self.tz).astimezone(UTC)


class _VSelector:
    """Selector wrapper: instead of sleeping until the next timer, jump the clock."""

    def __init__(self, real, loop):
        self._real = real
        self._loop = loop

    def select(self, timeout=None):
        loop = self._loop
        if timeout is not None and timeout <= 0:
            return self._real.select(0)
        if loop.inflight > 0 or timeout is None:
            # wait (really) for a thread to hand something back; never pass a timer
            return self._real.select(0.02 if timeout is None else min(timeout, 0.02))
        ev = self._real.select(0)
        if ev:
            return ev
        loop.clock.t += timeout
        loop.jumps += 1
        return ev

    def __getattr__(self, name):
        return getattr(self._real, name)


class VLoop(asyncio.SelectorEventLoop):
    """Selector loop whose time is the virtual clock."""

    def __init__(self, clock: VClock):
        super().__init__(selectors.DefaultSelector())
        self.clock = clock
        self.inflight = 0
        self.inflight_futs = set()
        self.jumps = 0
        self.iterations = 0
        self._selector = _VSelector(self._selector, self)

    def time(self):
        return self.clock.t

    def _run_once(self):
        self.clock.t += self.clock.tick
        self.iterations += 1
        super()._run_once()

    def run_in_executor(self, executor, func, *args):
        fut = super().run_in_executor(executor, func, *args)
        self.inflight += 1
        self.inflight_futs.add(fut)

        def _done(_f):
            self.inflight -= 1
            self.inflight_futs.discard(_f)

        fut.add_done_callback(_done)
        return fut


class CountingTask(asyncio.tasks._PyTask):
    """Pure-python task that counts its suspensions (deterministic cancellation points)."""

    serial_counter = 0
    on_suspend = None  # callable(task, n) set by a check

    def __init__(self, coro, *, loop=None, name=None, context=None, eager_start=False):
        CountingTask.serial_counter += 1
        self.vf_serial = CountingTask.serial_counter
        self.vf_steps = 0
        super().__init__(coro, loop=loop, name=name, context=context, eager_start=eager_start)

    def _Task__step(self, exc=None):
        self.vf_steps += 1
        try:
            super()._Task__step(exc)
        finally:
            cb = CountingTask.on_suspend
            if cb is not None and not self.done():
                cb(self, self.vf_steps)


def _task_factory(loop, coro, **kw):
    return CountingTask(coro, loop=loop, **kw)


def task_serial(task=None):
    task = task or asyncio.current_task()
    return getattr(task, "vf_serial", -1)


class LogTap(logging.Handler):
    def __init__(self, clock):
        super().__init__(level=logging.DEBUG)
        self.records = []
        self.clock = clock

    def emit(self, record):
        try:
            msg = record.getMessage()
        except Exception:  # noqa: BLE001
            msg = str(record.msg)
        self.records.append(
            {
                "name": record.name,
                "level": record.levelname,
                "msg": msg,
                "t": round(self.clock.off, 6),
                "exc": bool(record.exc_info),
            }
        )


CTX_LOGGER_PARTS = ("file", "scripts", "apps", "modules")


class World:
    """One HA instance with pyscript set up from a real temp directory."""

    def __init__(
        self,
        *,
        files: dict[str, str] | None = None,
        legacy: bool = False,
        config: dict | None = None,
        start: dt.datetime = dt.datetime(2024, 1, 15, 18, 0, 0),
        tick: float = 5e-6,
        mqtt: bool = False,
        webhook: bool = False,
        debug_ctx_loggers: bool = True,
        extra_functions: dict | None = None,
        skew: float = 0.0,
    ):
        self.files = dict(files or {})
        self.legacy = legacy
        self.config = dict(config or {})
        if legacy:
            self.config["legacy_decorators"] = True
        self.clock = VClock(start, tick)
        self.clock.skew = skew
        self.use_mqtt = mqtt
        self.use_webhook = webhook
        self.debug_ctx_loggers = debug_ctx_loggers
        self.extra_functions = extra_functions or {}
        self.rec: list[dict] = []
        self.seq = 0
        self.bus: list[dict] = []
        self.escapes: list[dict] = []
        self.hass = None
        self.tmp = None
        self.entry = None
        self._stack = []
        self.loop: VLoop | None = None
        self.logtap = LogTap(self.clock)
        self.broker = None
        self.epoch = 0.0

    # ---- recorder ---------------------------------------------------------
    def _rec(self, tag, /, **info):
        self.seq += 1
        r = {"seq": self.seq, "t": round(self.clock.off, 6), "task": task_serial(), "tag": tag}
        r.update({k: sanitize(v) for k, v in info.items()})
        self.rec.append(r)
        return self.seq

    def records(self, tag=None):
        return [r for r in self.rec if tag is None or r["tag"] == tag]

    # ---- files ------------------------------------------------------------
    @property
    def pydir(self):
        return os.path.join(self.tmp, "pyscript")

    def write(self, rel, text, mtime=None):
        path = os.path.join(self.pydir, rel)
        os.makedirs(os.path.dirname(path), exist_ok=True)
        with open(path, "w", encoding="utf-8") as f:
            f.write(text)
        if mtime is not None:
            os.utime(path, (mtime, mtime))

    def remove(self, rel):
        path = os.path.join(self.pydir, rel)
        if os.path.isdir(path):
            shutil.rmtree(path)
        elif os.path.exists(path):
            os.remove(path)

    # ---- life cycle -------------------------------------------------------
    async def boot(self, setup: bool = True):
        from homeassistant import loader
        from homeassistant.const import EVENT_HOMEASSISTANT_STARTED
        from homeassistant.core import CoreState
        from homeassistant.setup import async_setup_component
        from homeassistant.util import dt as dt_util
        from pytest_homeassistant_custom_component.common import async_test_home_assistant

        import custom_components.pyscript as pys
        from custom_components.pyscript import trigger as trig_mod
        from custom_components.pyscript.decorators import timing as timing_mod
        from custom_components.pyscript.function import Function

        self.loop = asyncio.get_running_loop()
        self.tmp = tempfile.mkdtemp(prefix="vfw-", dir=_tmp_base())
        os.makedirs(self.pydir, exist_ok=True)
        for rel, text in self.files.items():
            self.write(rel, text)

        self._cm = async_test_home_assistant(config_dir=self.tmp)
        self.hass = await self._cm.__aenter__()
        hass = self.hass
        hass.data.pop(loader.DATA_CUSTOM_COMPONENTS, None)
        self.clock.tz = dt_util.get_default_time_zone()

        # time sources
        fake_time = types.SimpleNamespace(monotonic=self.clock.monotonic, time=self.clock.monotonic)
        for p in (
            patch.object(trig_mod, "dt_now", self.clock.local_naive),
            patch.object(trig_mod, "time", fake_time),
            patch.object(timing_mod, "time", fake_time),
            patch.object(pys, "watchdog_start", _noop_watchdog),
            patch("homeassistant.config.load_yaml_config_file", self._load_yaml),
        ):
            p.start()
            self._stack.append(p)

        # monitors
        root = logging.getLogger()
        root.addHandler(self.logtap)
        self._root_level = root.level
        root.setLevel(logging.INFO)
        logging.getLogger("custom_components.pyscript").setLevel(logging.INFO)
        if self.debug_ctx_loggers:
            for part in CTX_LOGGER_PARTS:
                logging.getLogger(f"custom_components.pyscript.{part}").setLevel(logging.DEBUG)
        self.loop.set_exception_handler(self._loop_exc)
        self._old_unraisable = sys.unraisablehook
        sys.unraisablehook = self._unraisable
        self._warn_cm = warnings.catch_warnings(record=True)
        self._warnings = self._warn_cm.__enter__()
        warnings.simplefilter("always", RuntimeWarning)

        from homeassistant.core import MATCH_ALL, callback

        @callback
        def _tap(event):
            self.bus.append(
                {
                    "type": event.event_type,
                    "data": event.data,
                    "ctx": event.context.id,
                    "parent": event.context.parent_id,
                    "t": round(self.clock.off, 6),
                }
            )

        hass.bus.async_listen(MATCH_ALL, _tap)

        # recorder functions through pyscript's own extension point
        funcs = {"vf.rec": self._rec, "vf.now": lambda: self.clock.off, "vf.task": task_serial}
        funcs.update(self.extra_functions)
        Function.register(funcs)

        if self.use_mqtt:
            from .fakes import FakeBroker

            self.broker = FakeBroker(self)
            p = patch("homeassistant.components.mqtt.async_subscribe", self.broker.async_subscribe)
            p.start()
            self._stack.append(p)
        if self.use_webhook:
            assert await async_setup_component(hass, "webhook", {})

        hass.set_state(CoreState.running)
        if setup:
            await self.setup()
        return self

    async def setup(self):
        from homeassistant.const import EVENT_HOMEASSISTANT_STARTED
        from homeassistant.setup import async_setup_component

        hass = self.hass
        ok = await async_setup_component(hass, "pyscript", {"pyscript": self.config})
        assert ok, "pyscript setup failed"
        await self.settle()
        hass.bus.async_fire(EVENT_HOMEASSISTANT_STARTED)
        await self.settle()
        entries = hass.config_entries.async_entries("pyscript")
        self.entry = entries[0] if entries else None
        self.epoch = self.clock.off

    def _load_yaml(self, *a, **k):
        return {"pyscript": dict(self.config)}

    def _loop_exc(self, loop, context):
        exc = context.get("exception")
        self.escapes.append(
            {
                "kind": "loop",
                "msg": context.get("message"),
                "exc": repr(exc) if exc else None,
                "task": repr(context.get("task") or context.get("future") or "")[:300],
                "t": round(self.clock.off, 6),
            }
        )

    def _unraisable(self, unr):
        self.escapes.append(
            {
                "kind": "unraisable",
                "msg": str(unr.err_msg),
                "exc": repr(unr.exc_value),
                "obj": repr(unr.object)[:200],
                "t": round(self.clock.off, 6),
            }
        )

    async def settle(self, max_iter: int = 20000):
        """Run until nothing is runnable (no ready callbacks, no executor job in flight)."""
        loop = self.loop
        quiet = 0
        for _ in range(max_iter):
            await asyncio.sleep(0)
            if loop.inflight_futs:
                # a thread is working for the loop: wait for it (really), time does not pass meanwhile
                await asyncio.wait(list(loop.inflight_futs))
                quiet = 0
                continue
            if len(loop._ready) == 0 and loop.inflight == 0:
                quiet += 1
                if quiet >= 3:
                    return
            else:
                quiet = 0
        raise SettleTimeout("settle: loop never became quiescent")

    async def quiesce(self):
        await self.settle()
        gc.collect()
        await self.settle()

    async def advance(self, secs: float):
        await asyncio.sleep(secs)
        await self.settle()

    async def at(self, off: float):
        """Sleep (virtually) until `off` seconds after the end of set-up (self.epoch)."""
        d = self.epoch + off - self.clock.off
        if d > 0:
            await asyncio.sleep(d)
        await self.settle()

    async def reload(self, global_ctx=None):
        data = {} if global_ctx is None else {"global_ctx": global_ctx}
        await self.hass.services.async_call("pyscript", "reload", data, blocking=True)
        await self.settle()

    async def unload(self):
        ok = await self.hass.config_entries.async_unload(self.entry.entry_id)
        await self.quiesce()
        return ok

    async def call(self, domain, service, data=None, **kw):
        return await self.hass.services.async_call(domain, service, data or {}, **kw)

    def set_state(self, entity, value, attrs=None, context=None):
        self.hass.states.async_set(entity, value, attrs, context=context)

    def fire(self, etype, data=None, context=None):
        self.hass.bus.async_fire(etype, data or {}, context=context)

    async def close(self):
        try:
            await self.hass.async_stop(force=True)
        except Exception:  # noqa: BLE001
            pass
        # Everything this world created must die *inside* this world: pyscript stops triggers from __del__ / weakref
        # finalizers through class-level state (Function.hass, DecoratorManager.hass), so an object of this case that is
        # collected during the next case would unregister the next case's services and subscriptions.
        try:
            for _ in range(3):
                await self.settle(max_iter=2000)
                gc.collect()
            await self.settle(max_iter=2000)
        except Exception:  # noqa: BLE001
            pass
        try:
            await self._cm.__aexit__(None, None, None)
        except Exception:  # noqa: BLE001
            pass
        for p in reversed(self._stack):
            p.stop()
        self._stack = []
        try:
            if self.loop.inflight_futs:
                await asyncio.wait(list(self.loop.inflight_futs), timeout=None)
        except Exception:  # noqa: BLE001
            pass
        logging.getLogger().removeHandler(self.logtap)
        # loggers are process-global: drop handlers this world's pyscript attached (eg a Jupyter session's stdout handler)
        for lname, lg in list(logging.Logger.manager.loggerDict.items()):
            if lname.startswith("custom_components.pyscript.") and isinstance(lg, logging.Logger):
                for h in list(lg.handlers):
                    lg.removeHandler(h)
        sys.unraisablehook = self._old_unraisable
        try:
            self._warn_cm.__exit__(None, None, None)
        except Exception:  # noqa: BLE001
            pass
        shutil.rmtree(self.tmp, ignore_errors=True)

    # ---- observation helpers ---------------------------------------------
    def warnings_seen(self):
        return [
            {"cat": w.category.__name__, "msg": str(w.message)}
            for w in (self._warnings or [])
            if "pyscript" in str(w.filename) or "never awaited" in str(w.message)
        ]

    def logs(self, prefix="custom_components.pyscript", level=None):
        return [
            r
            for r in self.logtap.records
            if r["name"].startswith(prefix) and (level is None or r["level"] == level)
        ]


class SettleTimeout(Exception):
    pass


async def _noop_watchdog(hass, folder, handler):
    return None


def sanitize(v, depth=0):
    """Turn what scripts hand to vf.rec into JSON-able data (StateVal -> {s, a}, Context -> id)."""
    from homeassistant.core import Context

    if v is None or isinstance(v, (bool, int, float)):
        return v
    if isinstance(v, str):
        d = getattr(v, "__dict__", None)
        if d is not None and type(v) is not str:
            return {
                "s": str(v),
                "a": {k: sanitize(x, depth + 1) for k, x in d.items() if k not in VIRTUAL_ATTRS},
            }
        return v
    if isinstance(v, Context):
        return v.id
    if depth > 6:
        return repr(v)
    if isinstance(v, dict):
        return {str(k): sanitize(x, depth + 1) for k, x in v.items()}
    if isinstance(v, (list, tuple)):
        return [sanitize(x, depth + 1) for x in v]
    if isinstance(v, (set, frozenset)):
        return sorted((sanitize(x, depth + 1) for x in v), key=repr)
    if isinstance(v, dt.datetime):
        return v.isoformat()
    if isinstance(v, BaseException):
        return {"exc": type(v).__name__, "msg": str(v)}
    return repr(v)


VIRTUAL_ATTRS = {"entity_id", "last_changed", "last_updated", "last_reported"}


def run_world(main, pre_setup=None, keep=False, **world_kw):
    """Create loop + World, run `await main(world)`, always tear down.  Returns main's result
    (or (world, result) with keep=True; the world's recorded lists stay readable)."""
    reset_pristine()
    w = World(**world_kw)
    loop = VLoop(w.clock)
    loop.set_task_factory(_task_factory)
    asyncio.set_event_loop(loop)

    async def _go():
        await w.boot(setup=False)
        try:
            if pre_setup is not None:
                r = pre_setup(w)
                if asyncio.iscoroutine(r):
                    await r
                await w.settle()
            await w.setup()
            return await main(w)
        finally:
            await w.close()

    try:
        res = loop.run_until_complete(_go())
        return (w, res) if keep else res
    finally:
        try:
            loop.run_until_complete(loop.shutdown_default_executor())
        except Exception:  # noqa: BLE001
            pass
        loop.close()


def _tmp_base():
    """Scratch space for a case's config dir: tmpfs when available (HA fsyncs its storage files,
    and 16 processes fsyncing on one disk serialise), else $TMPDIR."""
    base = os.environ.get("VERIF_TMP")
    if base:
        return base
    if os.path.isdir("/dev/shm") and os.access("/dev/shm", os.W_OK):
        return "/dev/shm"
    return None


# ---- isolation between cases run in one process ------------------------------------------------
# pyscript keeps its state in class attributes.  A worker runs many cases one after the other, so
# before every case those attributes are put back to what they were right after import.  (Every
# reported violation is additionally re-run alone in a brand-new interpreter, see pool.confirm_cases.)
_PRISTINE: dict = {}


def _state_classes():
    from custom_components.pyscript.decorator import DecoratorRegistry
    from custom_components.pyscript.event import Event
    from custom_components.pyscript.function import Function
    from custom_components.pyscript.global_ctx import GlobalContextMgr
    from custom_components.pyscript.mqtt import Mqtt
    from custom_components.pyscript.state import State
    from custom_components.pyscript.trigger import TrigTime
    from custom_components.pyscript.webhook import Webhook

    return [Function, State, Event, Mqtt, Webhook, GlobalContextMgr, TrigTime, DecoratorRegistry]


def _is_data(v):
    return v is None or isinstance(v, (dict, set, list, int, float, str, bool))


def snapshot_pristine():
    import copy

    if _PRISTINE:
        return
    for cls in _state_classes():
        snap = {}
        for name, val in vars(cls).items():
            if name.startswith("__") or not _is_data(val):
                continue
            snap[name] = copy.copy(val)
        _PRISTINE[cls] = snap


def reset_pristine():
    import copy

    if not _PRISTINE:
        snapshot_pristine()
        return
    for cls, snap in _PRISTINE.items():
        for name in [n for n, v in vars(cls).items() if not n.startswith("__") and _is_data(v) and n not in snap]:
            try:
                delattr(cls, name)
            except AttributeError:
                pass
        for name, val in snap.items():
            setattr(cls, name, copy.copy(val))
    CountingTask.on_suspend = None
