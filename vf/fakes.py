"""Stand-ins at HA's API boundary (never inside pyscript): an in-harness MQTT broker."""

from __future__ import annotations

import time


def topic_matches(sub: str, topic: str) -> bool:
    sp, tp = sub.split("/"), topic.split("/")
    for i, s in enumerate(sp):
        if s == "#":
            return True
        if i >= len(tp):
            return False
        if s == "+":
            continue
        if s != tp[i]:
            return False
    return len(sp) == len(tp)


class FakeBroker:
    """Replaces homeassistant.components.mqtt.async_subscribe; delivers ReceiveMessage objects."""

    def __init__(self, world):
        self.world = world
        self.subs = []  # [id, topic, callback, qos, encoding]
        self.seq = 0
        self.subscribe_calls = 0
        self.unsubscribe_calls = 0

    async def async_subscribe(self, hass, topic, msg_callback, qos=0, encoding="utf-8", job_type=None):
        self.seq += 1
        sid = self.seq
        self.subs.append([sid, topic, msg_callback, qos, encoding])
        self.subscribe_calls += 1

        def unsub():
            self.unsubscribe_calls += 1
            self.subs[:] = [s for s in self.subs if s[0] != sid]

        return unsub

    def publish(self, topic, payload, qos=0, retain=False):
        from homeassistant.components.mqtt.models import ReceiveMessage
        from homeassistant.core import HassJob

        hass = self.world.hass
        n = 0
        for sid, sub, cb, _q, enc in list(self.subs):
            if not topic_matches(sub, topic):
                continue
            p = payload
            if isinstance(p, bytes) and enc is not None:
                p = p.decode(enc)
            msg = ReceiveMessage(topic, p, qos, retain, sub, time.time())
            hass.async_run_hass_job(HassJob(cb), msg)
            n += 1
        return n
