"""Independent calendar oracle for pyscript time specifications (C06, C07).

Specs are *structures*; `render_*` turns them into the strings handed to pyscript, `next_after` /
`enumerate_between` compute the denoted instants without touching pyscript's parser or croniter.
All datetimes are naive local wall-clock times (pyscript's convention).
"""

from __future__ import annotations

import datetime as dt

DOW_SHORT = ["sun", "mon", "tue", "wed", "thu", "fri", "sat"]
DOW_LONG = ["sunday", "monday", "tuesday", "wednesday", "thursday", "friday", "saturday"]
UNIT_SECONDS = {"s": 1, "m": 60, "h": 3600, "d": 86400, "w": 604800}
UNIT_SPELL = {
    "s": ["", "s", "sec", "second", "seconds"],
    "m": ["m", "min", "mins", "minute", "minutes"],
    "h": ["h", "hr", "hour", "hours"],
    "d": ["d", "day", "days"],
    "w": ["w", "week", "weeks"],
}


# ------------------------------------------------------------------ rendering
def render_offset(off):
    if not off:
        return ""
    sign, val, unit, spell, sp = off
    num = repr(val) if isinstance(val, float) else str(val)
    return f" {sign}{sp}{num}{sp if spell else ''}{spell}"


def render_dt(d):
    date = d.get("date")
    t = d.get("time")
    parts = []
    if date:
        k = date[0]
        if k == "full":
            parts.append(f"{date[1]:04d}/{date[2]:02d}/{date[3]:02d}")
        elif k == "md":
            parts.append(f"{date[1]}/{date[2]}")
        elif k == "dow":
            parts.append((DOW_LONG if date[2] else DOW_SHORT)[date[1]])
        else:
            parts.append(k)  # today / tomorrow
    if t:
        k = t[0]
        if k == "hms":
            _, h, m, s, frac = t
            txt = f"{h}:{m:02d}"
            if s is not None:
                txt += f":{s:02d}"
                if frac:
                    txt += f".{frac}"
            parts.append(txt)
        else:
            parts.append(k)
    return " ".join(parts) + render_offset(d.get("offset"))


def render_interval(iv):
    val, unit, spell = iv
    num = repr(val) if isinstance(val, float) else str(val)
    return f"{num}{spell}"


def render_spec(s):
    k = s["k"]
    if k == "once":
        return f"once({render_dt(s['dt'])})"
    if k == "period":
        a = f"period({render_dt(s['start'])}, {render_interval(s['interval'])}"
        if s.get("end"):
            a += f", {render_dt(s['end'])}"
        return a + ")"
    if k == "cron":
        return "cron(" + " ".join(render_field(f) for f in s["fields"]) + ")"
    raise ValueError(k)


def render_field(f):
    if f == "*":
        return "*"
    if f[0] == "step":
        return f"*/{f[1]}"
    out = []
    for item in f[1]:
        out.append(str(item) if isinstance(item, int) else f"{item[0]}-{item[1]}")
    return ",".join(out)


# ------------------------------------------------------------------ denotation
def offset_seconds(off):
    if not off:
        return 0.0
    sign, val, unit, _, _ = off
    return (-1 if sign == "-" else 1) * val * UNIT_SECONDS[unit]


def interval_seconds(iv):
    return iv[0] * UNIT_SECONDS[iv[1]]


def time_of(t, date, sun):
    """Wall-clock datetime of time-part t on calendar date `date` (None if undefined)."""
    base = dt.datetime(date.year, date.month, date.day)
    if not t:
        return base
    k = t[0]
    if k == "hms":
        _, h, m, s, frac = t
        secs = h * 3600 + m * 60 + (s or 0) + (float("0." + frac) if frac else 0.0)
        return base + dt.timedelta(seconds=secs)
    if k == "noon":
        return base + dt.timedelta(hours=12)
    if k == "midnight":
        return base
    if k in ("sunrise", "sunset"):
        return sun(k, date)
    raise ValueError(k)


def dt_candidates(d, now, startup, sun, span_days=3):
    """Instants denoted by a datetime structure in a neighbourhood of `now` (enough to find the next one)."""
    off = dt.timedelta(seconds=offset_seconds(d.get("offset")))
    t = d.get("time")
    date = d.get("date")
    if t and t[0] == "now":
        return [startup + off]
    ref = (now - off).date()
    dates = []
    if date is None:
        dates = [ref + dt.timedelta(days=i) for i in range(-span_days, span_days + 1)]
    elif date[0] == "full":
        dates = [dt.date(date[1], date[2], date[3])]
    elif date[0] == "md":
        for y in range(ref.year - 1, ref.year + 6):
            try:
                dates.append(dt.date(y, date[1], date[2]))
            except ValueError:
                pass
    elif date[0] == "dow":
        for i in range(-9, 10):
            dd = ref + dt.timedelta(days=i)
            if dd.isoweekday() % 7 == date[1]:
                dates.append(dd)
    elif date[0] == "today":
        dates = [now.date()]
    elif date[0] == "tomorrow":
        dates = [now.date() + dt.timedelta(days=1)]
    out = []
    for dd in dates:
        x = time_of(t, dd, sun)
        if x is not None:
            out.append(x + off)
    return sorted(out)


def field_values(f, lo, hi):
    if f == "*":
        return set(range(lo, hi + 1))
    if f[0] == "step":
        return set(range(lo, hi + 1, f[1]))
    vals = set()
    for item in f[1]:
        if isinstance(item, int):
            vals.add(item)
        else:
            vals.update(range(item[0], item[1] + 1))
    return vals


def cron_next(fields, now):
    mins = field_values(fields[0], 0, 59)
    hours = field_values(fields[1], 0, 23)
    doms = field_values(fields[2], 1, 31)
    mons = field_values(fields[3], 1, 12)
    dows = {v % 7 for v in field_values(fields[4], 0, 7 if fields[4] != "*" and fields[4][0] != "step" else 6)}
    # the two day fields are OR-ed when both are restricted (crontab); which spellings count as "unrestricted" (*/n,
    # lists covering every value) differs between cron implementations, so generators keep one of them a plain '*'
    # whenever the other is a step or covers everything
    dom_star = fields[2] == "*"
    dow_star = fields[4] == "*"
    day = now.date()
    for _ in range(366 * 9):
        if day.month in mons:
            dom_ok = day.day in doms
            dow_ok = (day.isoweekday() % 7) in dows
            if dom_star or dow_star:
                ok = dom_ok and dow_ok
            else:
                ok = dom_ok or dow_ok
            if ok:
                for h in sorted(hours):
                    for m in sorted(mins):
                        c = dt.datetime(day.year, day.month, day.day, h, m)
                        if c > now:
                            return c
        day += dt.timedelta(days=1)
    return None


def spec_next(s, now, startup, sun):
    """Earliest instant strictly after `now` that spec s denotes (None if none)."""
    k = s["k"]
    if k == "cron":
        return cron_next(s["fields"], now)
    if k == "once":
        for c in dt_candidates(s["dt"], now, startup, sun):
            if c > now:
                return c
        return None
    if k == "period":
        iv = interval_seconds(s["interval"])
        st = s["start"]
        fixed = (st.get("date") and st["date"][0] == "full") or (st.get("time") and st["time"][0] == "now")
        if fixed:
            start = dt_candidates(st, now, startup, sun)[0]
            end = dt_candidates(s["end"], now, startup, sun)[0] if s.get("end") else None
            if now < start:
                c = start
            else:
                n = int((now - start).total_seconds() // iv) + 1
                c = start + dt.timedelta(seconds=n * iv)
                while c <= now:
                    c += dt.timedelta(seconds=iv)
                while c - dt.timedelta(seconds=iv) > now and c - dt.timedelta(seconds=iv) >= start:
                    c -= dt.timedelta(seconds=iv)
            if end is not None and c > end:
                return None
            return c
        # time-only start: re-anchored every day
        best = None
        for start in dt_candidates(st, now, startup, sun, span_days=2):
            end = None
            if s.get("end"):
                e = time_of(s["end"].get("time"), start.date(), sun) + dt.timedelta(seconds=offset_seconds(s["end"].get("offset")))
                if e < start:
                    e += dt.timedelta(days=1)
                end = e
            else:
                end = start + dt.timedelta(days=1) - dt.timedelta(microseconds=1)
            if now < start:
                c = start
            else:
                n = int((now - start).total_seconds() // iv) + 1
                c = start + dt.timedelta(seconds=n * iv)
            if c <= now or c > end:
                continue
            if best is None or c < best:
                best = c
        return best
    raise ValueError(k)


def next_after(specs, now, startup, sun):
    best = None
    for s in specs:
        c = spec_next(s, now, startup, sun)
        if c is not None and (best is None or c < best):
            best = c
    return best


def enumerate_between(specs, start, end, startup, sun, limit=2000):
    out = []
    now = start
    while len(out) < limit:
        c = next_after(specs, now, startup, sun)
        if c is None or c > end:
            break
        out.append(c)
        now = c
    return out
