"""Generators for C03: argument-binding tables, scoping programs, class/decorator templates."""

from __future__ import annotations

import itertools

RESERVED = ["trigger_type", "var_name", "value", "old_value", "context", "event_type", "trigger_time", "payload", "topic", "qos", "retain", "payload_obj", "webhook_id"]


# ------------------------------------------------------------------ binding table
def signatures():
    """All signatures with <= 2 parameters of each kind; returns list of dicts."""
    out = []
    for npo in range(3):
        for nn in range(3):
            tot = npo + nn
            for ndef in range(tot + 1):
                for va in (False, True):
                    for nko in range(3):
                        for kodef in itertools.product((False, True), repeat=nko):
                            for kw in (False, True):
                                out.append({"npo": npo, "nn": nn, "ndef": ndef, "va": va, "kodef": list(kodef), "kw": kw})
    return out


def render_sig(sig, tagbase):
    """Return (def source, list of parameter names in return order, ntags)."""
    names = []
    parts = []
    pos = [f"p{i}" for i in range(sig["npo"])] + [f"a{i}" for i in range(sig["nn"])]
    tot = len(pos)
    t = tagbase
    for i, n in enumerate(pos):
        if i >= tot - sig["ndef"]:
            t += 1
            parts.append(f"{n}=T({t}, 'D{n}')")
        else:
            parts.append(n)
        names.append(n)
        if i == sig["npo"] - 1:
            parts.append("/")
    if sig["va"]:
        parts.append("*args")
        names.append("args")
    elif sig["kodef"]:
        parts.append("*")
    for i, d in enumerate(sig["kodef"]):
        n = f"k{i}"
        if d:
            t += 1
            parts.append(f"{n}=T({t}, 'D{n}')")
        else:
            parts.append(n)
        names.append(n)
    if sig["kw"]:
        parts.append("**kw")
        names.append("kw")
    ret = ", ".join(names) + ("," if len(names) == 1 else "")
    src = f"def f({', '.join(parts)}):\n    return ({ret})\n"
    return src, names, t - tagbase


def call_shapes(rng, n):
    """n random call shapes: (npos, kwnames, star_len or None, dstar names or None)."""
    pool = ["p0", "p1", "a0", "a1", "k0", "k1", "zz", "args", "kw"]
    out = []
    for _ in range(n):
        npos = rng.choice([0, 0, 1, 1, 2, 2, 3, 4])
        kws = rng.sample(pool, rng.choice([0, 0, 1, 1, 2, 3]))
        star = rng.choice([None, None, None, 0, 1, 2])
        dstar = rng.sample(pool, rng.choice([1, 2])) if rng.random() < 0.25 else None
        out.append((npos, kws, star, dstar))
    return out


def render_call(shape, tagbase):
    npos, kws, star, dstar = shape
    t = tagbase
    args = []
    for i in range(npos):
        t += 1
        args.append(f"T({t}, 'P{i}')")
    if star is not None:
        t += 1
        args.append("*T(%d, [%s])" % (t, ", ".join(f"'S{i}'" for i in range(star))))
    for k in kws:
        t += 1
        # every third keyword value is an explicit None / falsy value (must not be mistaken for "not passed")
        val = ["'K%s'" % k, "None", "0"][t % 3] if (t // 3) % 2 else "'K%s'" % k
        args.append(f"{k}=T({t}, {val})")
    if dstar is not None:
        t += 1
        args.append("**T(%d, {%s})" % (t, ", ".join((f"'{k}': None" if (t + i) % 3 == 0 else f"'{k}': 'X{k}'") for i, k in enumerate(dstar))))
    return f"r = f({', '.join(args)})\n"


# ------------------------------------------------------------------ scoping programs
NAMES = ["x", "y", "z"]


class ScopeGen:
    def __init__(self, rng, gated=frozenset()):
        self.rng = rng
        self.t = 0
        self.fn = 0
        self.gated = set(gated)
        self.features = set()

    def tag(self):
        self.t += 1
        return self.t

    def func(self, depth, ind, enclosing_bound):
        """Emit a function definition; returns (lines, name)."""
        r = self.rng
        self.fn += 1
        name = f"f{self.fn}"
        params = r.sample(NAMES, r.choice([0, 0, 1, 2]))
        pad = "    " * ind
        lines = [f"{pad}def {name}({', '.join(params)}):"]
        body = []
        ip = "    " * (ind + 1)
        declared = set(params)
        decl_lines = []
        gdecl = set()
        for v in NAMES:
            if v in params:
                continue
            k = r.random()
            if k < 0.12:
                decl_lines.append(f"{ip}global {v}")
                declared.add(v)
                gdecl.add(v)
            elif k < 0.27 and v in enclosing_bound and depth_ok(ind):
                decl_lines.append(f"{ip}nonlocal {v}")
                declared.add(v)
        bound_here = set(params)
        nst = r.randint(2, 6)
        for _ in range(nst):
            k = r.random()
            v = r.choice(NAMES)
            if k < 0.25:
                body.append(f"{ip}{v} = T({self.tag()}, {r.randint(0, 9)})")
                bound_here.add(v)
            elif k < 0.45:
                body.append(f"{ip}T({self.tag()}, {v})")
            elif k < 0.55:
                body.append(f"{ip}{v} += T({self.tag()}, 1)")
                bound_here.add(v)
            elif k < 0.75 and depth > 0:
                sub, subname = self.func(depth - 1, ind + 1, enclosing_bound | bound_here | {x for x in NAMES if r.random() < 0.3} | ({"acc"} if r.random() < 0.5 else set()))
                body.extend(sub)
                nargs = sub[0].count(",") + (0 if "()" in sub[0] else 1)
                call = f"{subname}({', '.join(str(r.randint(0, 9)) for _ in range(nargs))})"
                kk = r.random()
                if kk < 0.6:
                    body.append(f"{ip}T({self.tag()}, {call})")
                elif kk < 0.8:
                    body.append(f"{ip}FS.append({subname})")
                else:
                    body.append(f"{ip}return {subname}")
            elif k < 0.82:
                body.append(f"{ip}for {v} in range(T({self.tag()}, 2)):")
                body.append(f"{ip}    T({self.tag()}, {v})")
                bound_here.add(v)
            elif k < 0.88:
                if v in gdecl and "del_undefined_global_silent" in self.gated:
                    body.append(f"{ip}T({self.tag()}, 'nodel')")
                else:
                    if v in gdecl:
                        self.features.add("del_undefined_global_silent")
                    body.append(f"{ip}del {v}")
            elif k < 0.94:
                body.append(f"{ip}try:")
                body.append(f"{ip}    T({self.tag()}, {v})")
                body.append(f"{ip}except NameError:")
                body.append(f"{ip}    T({self.tag()}, 'NE')")
            else:
                if "comprehension_target_is_function_local" in self.gated:
                    body.append(f"{ip}T({self.tag()}, [q_ + {v if v in bound_here else 0} for q_ in range(2)])")
                else:
                    self.features.add("comprehension_target_is_function_local")
                    body.append(f"{ip}T({self.tag()}, [{v} for {v} in range(2)])")
        # a list variable that nested functions may mention only through an attribute (acc.append): it must still be
        # found in the enclosing function (or the globals)
        if r.random() < 0.6:
            mode = r.choice(["bind", "attr", "attr", "bind+attr", "bare"])
            extra = []
            if "bind" in mode:
                extra.append([f"{ip}acc = [T({self.tag()}, 'acc_{name}')]"])
            if "attr" in mode or mode == "bare":
                for _ in range(r.choice([1, 2])):
                    use = f"acc.append(T({self.tag()}, {r.randint(0, 9)}))" if mode != "bare" else f"T({self.tag()}, list(acc))"
                    extra.append([f"{ip}try:", f"{ip}    {use}", f"{ip}except NameError:", f"{ip}    T({self.tag()}, 'NEacc')"])
            if mode == "bind":
                extra.append([f"{ip}T({self.tag()}, list(acc))"])
            # statements go to random positions between the top-level statements of the body (never inside a nested block)
            tops = [i for i, l in enumerate(body) if l.startswith(ip) and not l.startswith(ip + " ") and not l.lstrip().startswith(("except", "else", "finally"))]
            for chunk in extra:
                pos = r.choice(tops + [len(body)]) if tops else len(body)
                body[pos:pos] = chunk
                tops = [i for i, l in enumerate(body) if l.startswith(ip) and not l.startswith(ip + " ") and not l.lstrip().startswith(("except", "else", "finally"))]
            if "bind" in mode and r.random() < 0.15 and "acc" in enclosing_bound and depth_ok(ind):
                decl_lines.append(f"{ip}nonlocal acc")
        body.append(f"{ip}return T({self.tag()}, 'ret_{name}')")
        return lines + decl_lines + body, name

    def program(self):
        r = self.rng
        lines = ["FS = []"]
        for v in NAMES:
            if r.random() < 0.6:
                lines.append(f"{v} = T({self.tag()}, '{v}g')")
        if r.random() < 0.6:
            lines.append(f"acc = [T({self.tag()}, 'accg')]")
        for _ in range(r.choice([1, 1, 2])):
            sub, name = self.func(r.choice([1, 2, 3]), 0, set())
            lines.extend(sub)
            nargs = 0 if "()" in sub[0] else sub[0].count(",") + 1
            lines.append(f"R_{name} = T({self.tag()}, {name}({', '.join(str(r.randint(0, 9)) for _ in range(nargs))}))")
            lines.append(f"if callable(R_{name}):")
            lines.append(f"    R2_{name} = T({self.tag()}, R_{name}())")
        lines.append("for fn_ in list(FS):")
        lines.append("    try:")
        lines.append(f"        T({self.tag()}, fn_())")
        lines.append("    except TypeError:")
        lines.append(f"        T({self.tag()}, 'TE')")
        lines.append("del fn_, FS")
        return "\n".join(lines) + "\n"


def depth_ok(ind):
    return ind >= 1


# ------------------------------------------------------------------ templates (decorators, classes, recursion, defaults ...)
def templates(rng, gated=frozenset()):
    a, b, c = rng.randint(1, 5), rng.randint(0, 4), rng.randint(2, 6)
    progs = []
    progs.append(
        f"""
def counter(start):
    n = start
    def inc(by=T(1, {b})):
        nonlocal n
        n += by
        return T(2, n)
    return inc
c1 = counter({a})
c2 = counter({a + 10})
r = [c1(), c1({c}), c2(), c1(by=2), c2()]
"""
    )
    progs.append(
        f"""
mode = "global-{a}"
budget = {c}
def make_reader():
    def reader():
        return T(1, mode)
    return reader
def make_spender():
    def spender(n):
        global budget
        budget -= n
        return T(2, budget)
    return spender
def caller():
    mode = T(3, "caller-local")
    budget = {a + 100}
    def helper():
        return (mode, budget)
    rd = make_reader()
    sp = make_spender()
    out = [rd(), sp({b}), helper()]
    mode = "caller-local-2"
    out.append(rd())
    out.append(helper())
    return out
r = caller()
r2 = (mode, budget)
"""
    )
    progs.append(
        f"""
def holder(v):
    w = T(1, v + {a})
    class K:
        b = T(2, v + 1)
        c = [w, b]
        def m(self):
            return T(3, (v, w))
    return (K.b, K.c, K().m())
def deco(fn):
    def wrapper(v):
        def inner(a=T(4, fn(v)), *, k=fn(v + {b})):
            return (a, k)
        class Sub([object][fn(v) * 0]):
            pass
        return (inner(), Sub.__name__)
    return wrapper
def dbl(x):
    return T(5, x * 2)
r = holder({c})
r2 = deco(dbl)({a})
"""
    )
    progs.append(
        f"""
fs = []
for i in range({c}):
    def g(j=i):
        return T(1, (i, j))
    fs.append(g)
r = [f() for f in fs]
fs2 = [lambda k=k: k * {a} for k in range(3)]
r2 = [f() for f in fs2]
"""
    )
    progs.append(
        f"""
total = {a}
def add(v):
    global total
    total += v
    return total
def peek():
    return total
def shadow():
    total = T(1, 'local')
    return total
r = [add(1), add({b}), peek(), shadow(), total]
"""
    )
    progs.append(
        f"""
def fact(n):
    T(1, n)
    return 1 if n <= 1 else n * fact(n - 1)
def fib(n, memo={{}}):
    if n in memo:
        return memo[n]
    memo[n] = n if n < 2 else fib(n - 1) + fib(n - 2)
    return memo[n]
def even(n):
    return True if n == 0 else odd(n - 1)
def odd(n):
    return False if n == 0 else even(n - 1)
r = [fact({min(c, 6)}), fib({c + 3}), even({a}), odd({b})]
"""
    )
    progs.append(
        f"""
def deco(fn):
    T(1, 'deco')
    def wrapper(*args, **kw):
        T(2, args)
        return fn(*args, **kw) + {a}
    return wrapper
def deco_arg(m):
    T(3, m)
    def real(fn):
        T(4, 'real')
        def wrapper(x):
            return fn(x) * m
        return wrapper
    return real
@deco
def f(x, y=1):
    return x + y
@deco_arg(T(5, {c}))
@deco
def g(x):
    return x
r = [f(1), f(2, y=3), g({b})]
"""
    )
    progs.append(
        f"""
class Base:
    kind = T(1, 'base')
    count = 0
    def __init__(self, v, w=T(2, {b})):
        self.v = v
        self.w = w
        Base.count += 1
    def get(self):
        return T(3, (self.kind, self.v, self.w))
    def add(self, n=1):
        self.v += n
        return self
class Child(Base):
    kind = 'child'
    def get(self):
        return ('c',) + Base.get(self)
    def twice(self):
        return self.add().add({a}).v
o1 = Base({a})
o2 = Child({c}, w=7)
objs = [o1, o2, Child(0)]
r = [o.get() for o in objs]
r2 = [o2.twice(), Base.count, o1.add(5).v, isinstance(o2, Base), type(o2).__name__]
m = o1.get
r3 = m()
"""
    )
    progs.append(
        f"""
@pyscript_compile
def native(x, y={a}, *rest, k=2, **kw):
    return (x, y, rest, k, sorted(kw))
@pyscript_compile
def native_gen(n):
    return [i * i for i in range(n)]
def wrap(*a, **k):
    return native(*a, **k)
r = [native(1), native(1, 2, 3, k=4, z=5), wrap({b}, q=1), native_gen({c}), sorted([3, 1, 2], key=lambda v: -v)]
"""
    )
    progs.append(
        f"""
def outer():
    x = T(1, 'o')
    def mid():
        def inner():
            return T(2, x)
        return inner
    x = T(3, 'o2')
    return mid()
r = outer()()
def unbound():
    T(4, 'before')
    print_me = y_undefined_{a}
    return 1
def ule():
    T(5, zq)
    zq = 1
    return zq
out = []
for fn in (unbound, ule):
    try:
        fn()
    except NameError as e:
        out.append(T(6, 'NE'))
"""
    )
    progs.append(
        f"""
def defaults(a, b=[], *, c={{}}):
    b.append(a)
    c[a] = len(b)
    return (list(b), dict(c))
r = [defaults(1), defaults(2), defaults(3, []), defaults({a}, c={{}})]
def kwonly(*, k, j=T(1, {b})):
    return (k, j)
r2 = [kwonly(k=1), kwonly(j=2, k=3)]
try:
    kwonly(1)
except TypeError:
    r3 = T(2, 'TE')
try:
    kwonly()
except TypeError:
    r4 = T(3, 'TE')
"""
    )
    progs.append(
        f"""
def make(n):
    acc = []
    def push(v):
        acc.append(v * n)
        return len(acc)
    def dump():
        return list(acc)
    return push, dump
p1, d1 = make({a})
p2, d2 = make({c})
r = [p1(1), p1(2), p2(3), d1(), d2()]
class Holder:
    def __init__(self):
        self.fns = {{}}
    def reg(self, name, fn):
        self.fns[name] = fn
        return fn
    def call(self, name, *a):
        return self.fns[name](*a)
h = Holder()
h.reg('p', p1)
h.reg('sq', lambda v: v * v)
r2 = [h.call('p', 5), h.call('sq', {b}), d1()]
"""
    )
    return [p.lstrip("\n") for p in progs]
