"""Control-flow skeleton generator (C02).

A skeleton is a tree of nodes; every block starts with a tracer statement; jump statements are placed at
legal positions only (the renderer tracks loop / function / handler context).  Loops are bounded by
construction and by the tracer budget.
"""

from __future__ import annotations

CONSTRUCTS = [
    "if_true",
    "if_false",
    "for",
    "for_else",
    "while",
    "while_else",
    "try_except",
    "try_finally",
    "try_full",
    "with1",
    "with1s",
    "with2",
    "func",
]
SLOTS = {
    "if_true": ["body", "orelse"],
    "if_false": ["body", "orelse"],
    "for": ["body"],
    "for_else": ["body", "orelse"],
    "while": ["body"],
    "while_else": ["body", "orelse"],
    "try_except": ["body", "handler"],
    "try_finally": ["body", "final"],
    "try_full": ["body", "handler", "orelse", "final"],
    "with1": ["body"],
    "with1s": ["body"],
    "with2": ["body"],
    "func": ["body"],
}
JUMPS = ["none", "break", "continue", "return", "raise_EA", "raise_EB", "raise_EC", "raise_bare", "raise_from", "assert", "raise_key", "assert_pass", "assert_msg"]
# the last one is an expression whose value differs every time an exception reaches it (XS is defined by render())
HANDLERS = ["except EA:", "except (EC, EA) as e:", "except Exception as e:", "except:", "except EB:", "except (KeyError, EC):", "except XS.pop():"]


class Render:
    def __init__(self):
        self.n = 0
        self.lines = []
        self.cnt = 0
        self.nodes = set()

    def tag(self):
        self.n += 1
        return self.n

    def emit(self, ind, text):
        self.lines.append("    " * ind + text)

    def block(self, stmts, ind, ctx):
        self.emit(ind, f"T({self.tag()})")
        for s in stmts:
            self.stmt(s, ind, ctx)

    def stmt(self, s, ind, ctx):
        kind = s[0]
        if kind == "T":
            self.emit(ind, f"T({self.tag()})")
            return
        if kind == "jump":
            self.jump(s[1], ind, ctx)
            return
        self.nodes.add(kind)
        slots = s[1]
        extra = s[2] if len(s) > 2 else {}
        g = lambda name: slots.get(name, [])  # noqa: E731
        if kind in ("if_true", "if_false"):
            self.emit(ind, f"if T({self.tag()}, {kind == 'if_true'}):")
            self.block(g("body"), ind + 1, ctx)
            self.emit(ind, "else:")
            self.block(g("orelse"), ind + 1, ctx)
        elif kind in ("for", "for_else"):
            self.cnt += 1
            v = f"i{self.cnt}"
            self.emit(ind, f"for {v} in range({extra.get('n', 2)}):")
            self.block(g("body"), ind + 1, dict(ctx, loop=True, final=False))
            if kind == "for_else":
                self.emit(ind, "else:")
                self.block(g("orelse"), ind + 1, ctx)
        elif kind in ("while", "while_else"):
            self.cnt += 1
            v = f"c{self.cnt}"
            self.emit(ind, f"{v} = 0")
            self.emit(ind, f"while {v} < {extra.get('n', 2)}:")
            self.emit(ind + 1, f"{v} += 1")
            self.block(g("body"), ind + 1, dict(ctx, loop=True, final=False))
            if kind == "while_else":
                self.emit(ind, "else:")
                self.block(g("orelse"), ind + 1, ctx)
        elif kind in ("try_except", "try_finally", "try_full"):
            self.emit(ind, "try:")
            self.block(g("body"), ind + 1, ctx)
            if kind != "try_finally":
                if extra.get("pre_handler"):
                    self.emit(ind, extra["pre_handler"])
                    self.emit(ind + 1, f"T({self.tag()})")
                self.emit(ind, extra.get("handler", "except EA:"))
                self.block(g("handler"), ind + 1, dict(ctx, handler=True))
                if " as e" in extra.get("handler", ""):
                    pass
            if kind == "try_full":
                self.emit(ind, "else:")
                self.block(g("orelse"), ind + 1, ctx)
            if kind != "try_except":
                self.emit(ind, "finally:")
                self.block(g("final"), ind + 1, dict(ctx, final=True))
        elif kind in ("with1", "with1s"):
            t = self.tag()
            sup = ", suppress=True" if kind == "with1s" else ""
            fe = ", fail_exit=True" if extra.get("fail_exit") else ""
            as_ = f" as w{t}" if extra.get("as") else ""
            if extra.get("badtarget"):
                # assigning the target fails: the manager is exited with that error (and may suppress it)
                as_ = f" as (w{t}, v{t})"
            self.emit(ind, f"with CM({t}{sup}{fe}){as_}:")
            self.block(g("body"), ind + 1, ctx)
        elif kind == "with2":
            a, b = self.tag(), self.tag()
            sa = ", suppress=True" if extra.get("sup_a") else ""
            sb = ", suppress=True" if extra.get("sup_b") else ""
            fe = ", fail_enter=True" if extra.get("fail_enter_b") else ""
            tb_ = f" as (wb{b}, vb{b})" if extra.get("badtarget_b") else ""
            self.emit(ind, f"with CM({a}{sa}) as wa{a}, CM({b}{sb}{fe}){tb_}:")
            self.block(g("body"), ind + 1, ctx)
        elif kind == "func":
            self.cnt += 1
            f = f"g{self.cnt}"
            self.emit(ind, f"def {f}():")
            self.block(g("body"), ind + 1, {"loop": False, "func": True, "handler": False, "final": False})
            self.emit(ind, f"T({self.tag()}, {f}())")
        else:
            raise ValueError(kind)

    def jump(self, j, ind, ctx):
        t = self.tag()
        if j == "none":
            self.emit(ind, f"T({t})")
        elif j == "break":
            self.emit(ind, "break" if ctx.get("loop") else f"T({t})")
        elif j == "continue":
            self.emit(ind, "continue" if ctx.get("loop") else f"T({t})")
        elif j == "return":
            self.emit(ind, f"return T({t}, {t})")
        elif j == "raise_EA":
            self.emit(ind, f"raise EA({t})")
        elif j == "raise_EB":
            self.emit(ind, f"raise EB({t})")
        elif j == "raise_EC":
            self.emit(ind, f"raise EC({t})")
        elif j == "raise_key":
            self.emit(ind, f"raise KeyError({t})")
        elif j == "raise_bare":
            self.emit(ind, "raise" if ctx.get("handler") else f"raise EA({t})")
        elif j == "raise_from":
            self.emit(ind, f"raise EC({t}) from EA({t})")
        elif j == "assert":
            self.emit(ind, f"assert T({t}, False), 'a{t}'")
        elif j == "assert_pass":
            # a passing assert never evaluates its message
            self.emit(ind, f"assert T({t}, True), T({self.tag()}, [][0])" if t % 2 else f"assert T({t}, 1), T({self.tag()}, 'unused')")
        elif j == "assert_msg":
            self.emit(ind, f"assert T({t}, 0), T({self.tag()}, 'm{t}')")
        else:
            raise ValueError(j)


def render(tree):
    r = Render()
    r.emit(0, "XS = [EC, EA, EB, (EC, EA), EC, EA, EB, EA]")
    r.emit(0, "def w():")
    r.block(tree, 1, {"loop": False, "func": True, "handler": False, "final": False})
    r.emit(1, f"return T({r.tag()}, 'end')")
    r.emit(0, "r = w()")
    return "\n".join(r.lines) + "\n", sorted(r.nodes)


def rand_extra(rng, c):
    if c in ("try_except", "try_full"):
        e = {"handler": rng.choice(HANDLERS)}
        if rng.random() < 0.25:
            e["pre_handler"] = rng.choice(["except KeyError:", "except (IndexError, ZeroDivisionError):"])
        return e
    if c in ("for", "for_else", "while", "while_else"):
        return {"n": rng.choice([0, 1, 2, 2, 3])}
    if c in ("with1", "with1s"):
        return {"as": rng.random() < 0.4, "fail_exit": rng.random() < 0.1, "badtarget": rng.random() < 0.12}
    if c == "with2":
        return {"sup_a": rng.random() < 0.3, "sup_b": rng.random() < 0.3, "fail_enter_b": rng.random() < 0.1, "badtarget_b": rng.random() < 0.12}
    return {}


def rand_block(rng, depth, gated=frozenset()):
    out = []
    for _ in range(rng.choice([1, 1, 2, 3])):
        k = rng.random()
        if depth > 0 and k < 0.55:
            c = rng.choice(CONSTRUCTS)
            slots = {s: rand_block(rng, depth - 1, gated) for s in SLOTS[c]}
            out.append((c, slots, rand_extra(rng, c)))
        elif k < 0.8:
            out.append(("jump", rng.choice(JUMPS)))
            if rng.random() < 0.7:
                break
        else:
            out.append(("T",))
    return out


def enumerate_depth2(handler_for=lambda o: "except EA:"):
    """Every outer construct x slot x inner construct x slot x jump, the jump at the end of that inner slot, a
    tracer statement after every compound statement."""
    for o in CONSTRUCTS:
        for so in SLOTS[o]:
            for i in CONSTRUCTS:
                for si in SLOTS[i]:
                    for j in JUMPS:
                        for trig in ("none", "raise_EA"):
                            # `trig` makes handler slots reachable: the try body of a construct raises EA first
                            inner_slots = {s: [] for s in SLOTS[i]}
                            inner_slots[si] = [("jump", j)]
                            if si == "handler" and "body" in inner_slots:
                                inner_slots["body"] = [("jump", "raise_EA")]
                            elif trig == "raise_EA" and i in ("try_except", "try_full", "try_finally") and si != "body":
                                inner_slots["body"] = [("jump", "raise_EA")]
                            elif trig == "raise_EA":
                                continue
                            inner = (i, inner_slots, {"handler": handler_for(i)} if i in ("try_except", "try_full") else {})
                            outer_slots = {s: [] for s in SLOTS[o]}
                            outer_slots[so] = [inner, ("T",)]
                            if so == "handler" and "body" in outer_slots:
                                outer_slots["body"] = [("jump", "raise_EA")]
                            yield [(o, outer_slots, {"handler": handler_for(o)} if o in ("try_except", "try_full") else {}), ("T",)]
