"""Grammar-based generator of straight-line Python programs (C01) with tracer calls at operand positions.

Kinds: int float bool none str bytes list tuple dict set.  `T(tag, v)` logs tag and returns v; every tag
is unique, so the log *is* the evaluation order and a repeated tag is a double evaluation.
Feature names in GATES can be switched off (known findings) by passing them in `gated`.
"""

from __future__ import annotations

KINDS = ["int", "float", "bool", "none", "str", "bytes", "list", "tuple", "dict", "set"]

GATES = {
    "dict_display_effectful_pair",  # both key and value of one display entry have side effects
    "call_effectful_kw_and_pos",  # a call with effectful positional AND keyword arguments
    "compare_chain_effectful_middle",  # chained comparison whose middle operand has a side effect
    "augassign_effectful_target",  # a[i()] += v  /  obj().x += v
    "augassign_mutable_alias",  # in-place operator on an aliased mutable (list +=, set |=, ...)
    "fstring_conversion",  # !r !s !a
    "list_target",  # [a, b] = ...
    "del_attribute",  # del obj.attr
    "del_tuple",  # del (a, b)
    "lambda_in_comprehension",  # lambda body reading the comprehension variable
    "starred_target_nonname",  # a, *b[0] = ...
    "comprehension_outer_falsy_shadow",  # (kept for symmetry; not gated by default)
}

INT_CONSTS = ["0", "1", "2", "3", "5", "7", "-1", "-2", "10", "255"]
FLOAT_CONSTS = ["0.0", "1.5", "-2.25", "3.0", "0.1", "1e3"]
STR_CONSTS = ["''", "'a'", "'ab'", "'hello'", "'x y'", "'A1'", "'%d'", "'{}'"]
BYTES_CONSTS = ["b''", "b'a'", "b'xyz'"]


class Gen:
    def __init__(self, rng, gated=frozenset(), depth=4, tprob=0.35, illtyped=0.06):
        self.rng = rng
        self.gated = set(gated)
        self.maxdepth = depth
        self.tprob = tprob
        self.illtyped = illtyped
        self.tag = 0
        self.vars = {}  # name -> kind
        self.nvar = 0
        self.features = set()
        self.nodes = set()

    # ---- helpers ---------------------------------------------------------
    def on(self, feat):
        return feat not in self.gated

    def newtag(self):
        self.tag += 1
        return self.tag

    def T(self, src, force=False):
        if force or self.rng.random() < self.tprob:
            return f"T({self.newtag()}, {src})"
        return src

    def effectful(self, src):
        return "T(" in src or ":=" in src

    def pick_var(self, kind):
        c = [n for n, k in self.vars.items() if k == kind]
        return self.rng.choice(c) if c else None

    def fresh(self, kind):
        self.nvar += 1
        name = f"v{self.nvar}"
        self.vars[name] = kind
        return name

    def kind(self):
        return self.rng.choice(KINDS)

    # ---- constants ---------------------------------------------------------
    def const(self, kind):
        r = self.rng
        self.nodes.add("Constant")
        if kind == "int":
            return r.choice(INT_CONSTS)
        if kind == "float":
            return r.choice(FLOAT_CONSTS)
        if kind == "bool":
            return r.choice(["True", "False"])
        if kind == "none":
            return "None"
        if kind == "str":
            return r.choice(STR_CONSTS)
        if kind == "bytes":
            return r.choice(BYTES_CONSTS)
        if kind == "list":
            self.nodes.add("List")
            return "[" + ", ".join(self.const(r.choice(["int", "str"])) for _ in range(r.randint(0, 3))) + "]"
        if kind == "tuple":
            self.nodes.add("Tuple")
            n = r.randint(0, 3)
            items = [self.const(r.choice(["int", "str"])) for _ in range(n)]
            return "(" + ", ".join(items) + ("," if n == 1 else "") + ")"
        if kind == "dict":
            self.nodes.add("Dict")
            keys = r.sample(["'a'", "'b'", "1", "2", "'k'"], r.randint(0, 3))
            return "{" + ", ".join(f"{k}: {self.const('int')}" for k in keys) + "}"
        if kind == "set":
            self.nodes.add("Set")
            items = r.sample(["1", "2", "3", "'a'"], r.randint(1, 3))
            return "{" + ", ".join(items) + "}"
        raise ValueError(kind)

    # ---- expressions ---------------------------------------------------------
    def expr(self, kind, depth=None):
        depth = self.maxdepth if depth is None else depth
        r = self.rng
        if r.random() < self.illtyped:
            # never a set: an ill-typed set would expose its iteration order (str(), zip(), unpacking ...), which depends
            # on CPython's constant folding of set displays, not on the language
            kind = r.choice([k for k in KINDS if k != "set"])
        if depth <= 0 or r.random() < 0.18:
            v = self.pick_var(kind)
            if v is not None and r.random() < 0.5:
                self.nodes.add("Name")
                return self.T(v)
            return self.T(self.const(kind))
        forms = getattr(self, "forms_" + kind)
        for _ in range(6):
            f = r.choice(forms)
            out = f(self, depth - 1)
            if out is not None:
                return self.T(out)
        return self.T(self.const(kind))

    def any_expr(self, depth):
        return self.expr(self.rng.choice([k for k in KINDS if k != "set"]), depth)

    def hashable(self, kind, depth):
        """Well-typed (hashable) operand: CPython builds dict/set displays only after evaluating every entry, so *when*
        an unhashable key is reported relative to later operands is a bytecode artefact, not part of the property."""
        r = self.rng
        if kind == "dict":
            return self.const("dict")
        k = r.random()
        if k < 0.35:
            return self.T(self.const(kind))
        if k < 0.7:
            return self.T(f"str({self.expr(r.choice(['int', 'str', 'list', 'none']), depth)})")
        return self.T(f"len({self.expr(r.choice(['str', 'list', 'tuple']), depth)})")

    def small_int(self):
        return self.rng.choice(["0", "1", "2", "3"])

    # -- int
    def _int_bin(self, d):
        self.nodes.add("BinOp")
        op = self.rng.choice(["+", "-", "*", "//", "%", "|", "^", "&"])
        return f"({self.expr('int', d)} {op} {self.expr('int', d)})"

    def _int_pow(self, d):
        self.nodes.add("BinOp")
        return f"({self.expr('int', d)} ** {self.small_int()})"

    def _int_shift(self, d):
        self.nodes.add("BinOp")
        return f"({self.expr('int', d)} {self.rng.choice(['<<', '>>'])} {self.small_int()})"

    def _int_unary(self, d):
        self.nodes.add("UnaryOp")
        return f"({self.rng.choice(['-', '+', '~'])}{self.expr('int', d)})"

    def _int_len(self, d):
        self.nodes.add("Call")
        return f"len({self.expr(self.rng.choice(['str', 'list', 'tuple', 'dict', 'set', 'bytes']), d)})"

    def _int_call(self, d):
        self.nodes.add("Call")
        k = self.rng.random()
        if k < 0.3:
            return f"abs({self.expr('int', d)})"
        if k < 0.5:
            return f"max({self.expr('int', d)}, {self.expr('int', d)})"
        if k < 0.65:
            return f"sum({self.expr('list', d)})"
        if k < 0.8:
            return f"int({self.expr(self.rng.choice(['float', 'bool', 'str']), d)})"
        return f"ord({self.expr('str', d)})"

    def _int_fresh_display_mutated(self, d):
        """A method that mutates a freshly built constant display: every evaluation must build a new object."""
        self.nodes.add("Call")
        r = self.rng
        k = r.random()
        if k < 0.4:
            return f"[{self.small_int()}, {self.small_int()}, {self.small_int()}].pop()"
        if k < 0.6:
            return f"[{self.small_int()}, {self.small_int()}].pop(0)"
        if k < 0.8:
            return f"{{'a': {self.small_int()}, 'b': {self.small_int()}}}.pop('a')"
        return f"{{{self.small_int()}}}.pop()"

    def _sub_seq(self, d, elem_kind=None):
        self.nodes.add("Subscript")
        seq = self.expr(self.rng.choice(["list", "tuple"]), d)
        return f"{seq}[{self.expr('int', d) if self.rng.random() < 0.5 else self.small_int()}]"

    def _ifexp(self, kind):
        def f(self, d):
            self.nodes.add("IfExp")
            return f"({self.expr(kind, d)} if {self.expr('bool', d)} else {self.expr(kind, d)})"

        return f

    def _boolop(self, kind):
        def f(self, d):
            self.nodes.add("BoolOp")
            op = self.rng.choice(["and", "or"])
            n = self.rng.choice([2, 2, 3])
            return "(" + f" {op} ".join(self.expr(kind, d) for _ in range(n)) + ")"

        return f

    def _named(self, kind):
        def f(self, d):
            self.nodes.add("NamedExpr")
            inner = self.expr(kind, d)
            name = self.fresh(kind)
            return f"({name} := {inner})"

        return f

    def _lambda(self, kind):
        def f(self, d):
            self.nodes.add("Lambda")
            a = self.expr(kind, d)
            if self.rng.random() < 0.5:
                return f"(lambda p, q={self.const(kind)}: p)({a})"
            return f"(lambda *p, **q: p[0])({a}, k={self.const('int')})"

        return f

    def _dict_get(self, kind):
        def f(self, d):
            self.nodes.add("Subscript")
            return f"{{'a': {self.expr(kind, d)}, 'b': {self.expr(kind, d)}}}[{self.T(self.rng.choice(['\"a\"', '\"b\"', '\"zz\"']))}]"

        return f

    # -- float
    def _float_bin(self, d):
        self.nodes.add("BinOp")
        op = self.rng.choice(["+", "-", "*", "/"])
        return f"({self.expr(self.rng.choice(['float', 'int']), d)} {op} {self.expr('float', d)})"

    def _float_call(self, d):
        self.nodes.add("Call")
        return self.rng.choice([f"float({self.expr('int', d)})", f"round({self.expr('float', d)}, {self.small_int()})", f"abs({self.expr('float', d)})"])

    def _truediv(self, d):
        self.nodes.add("BinOp")
        return f"({self.expr('int', d)} / {self.expr('int', d)})"

    # -- bool
    def _cmp(self, d):
        self.nodes.add("Compare")
        r = self.rng
        k = r.choice(["int", "int", "str", "float", "tuple", "list"])
        op = r.choice(["==", "!=", "<", "<=", ">", ">="])
        a, b = self.expr(k, d), self.expr(k, d)
        if r.random() < 0.35:
            c = self.expr(k, d)
            op2 = r.choice(["==", "!=", "<", "<=", ">", ">="])
            if self.effectful(b) and not self.on("compare_chain_effectful_middle"):
                return f"({a} {op} {b})"
            if self.effectful(b):
                self.features.add("compare_chain_effectful_middle")
            return f"({a} {op} {b} {op2} {c})"
        return f"({a} {op} {b})"

    def _in(self, d):
        self.nodes.add("Compare")
        r = self.rng
        c = r.choice(["list", "tuple", "set", "dict", "str"])
        item = self.expr("str" if c == "str" else r.choice(["int", "str"]), d)
        return f"({item} {r.choice(['in', 'not in'])} {self.expr(c, d)})"

    def _is_none(self, d):
        self.nodes.add("Compare")
        return f"({self.expr(self.rng.choice(['none', 'int', 'str']), d)} {self.rng.choice(['is', 'is not'])} None)"

    def _not(self, d):
        self.nodes.add("UnaryOp")
        return f"(not {self.any_expr(d)})"

    def _bool_call(self, d):
        self.nodes.add("Call")
        r = self.rng
        return r.choice(
            [
                f"bool({self.any_expr(d)})",
                f"isinstance({self.any_expr(d)}, {r.choice(['int', 'str', 'list', '(int, float)'])})",
                f"any({self.expr('list', d)})",
                f"all({self.expr('tuple', d)})",
                f"{self.expr('str', d)}.startswith({self.expr('str', d)})",
            ]
        )

    # -- str
    def _str_bin(self, d):
        self.nodes.add("BinOp")
        k = self.rng.random()
        if k < 0.5:
            return f"({self.expr('str', d)} + {self.expr('str', d)})"
        if k < 0.75:
            return f"({self.expr('str', d)} * {self.small_int()})"
        if self.rng.random() < 0.5:
            # CPython compiles '...' % (a, b) with a literal format and a tuple display like an f-string (each value is formatted
            # right after it is evaluated): with side effects on earlier operands that is a compiler artefact, so the plain form
            # only gets constants
            return f"('%s-%s' % ({self.const('int')}, {self.const('str')}))"
        return f"('%s-%s' % ({self.expr('int', d)}, {self.expr('str', d)})[0:2])"

    def _str_call(self, d):
        self.nodes.add("Call")
        r = self.rng
        return r.choice(
            [
                f"str({self.any_expr(d)})" if True else "",
                f"repr({self.expr(r.choice(['int', 'str', 'list', 'tuple', 'none', 'bool']), d)})",
                f"{self.expr('str', d)}.upper()",
                f"'-'.join([{self.expr('str', d)}, {self.expr('str', d)}])",
                f"'{{}}/{{}}'.format({self.expr('int', d)}, {self.expr('str', d)})",
                f"chr({self.rng.choice(['65', '97', '48'])} + {self.small_int()})",
                f"{self.expr('str', d)}.replace('a', {self.expr('str', d)})",
            ]
        )

    def _str_sub(self, d):
        self.nodes.add("Subscript")
        r = self.rng
        s = self.expr("str", d)
        if r.random() < 0.5:
            return f"{s}[{self.expr('int', d)}]"
        self.nodes.add("Slice")
        lo = self.expr("int", d) if r.random() < 0.6 else ""
        hi = self.expr("int", d) if r.random() < 0.6 else ""
        st = (":" + r.choice(["1", "2", "-1"])) if r.random() < 0.3 else ""
        return f"{s}[{lo}:{hi}{st}]"

    def _fstring(self, d):
        self.nodes.add("JoinedStr")
        r = self.rng
        parts = []
        for _ in range(r.randint(1, 3)):
            if r.random() < 0.3:
                parts.append(r.choice(["x", " ", "-", "{{", "ab"]))
                continue
            e = self.expr(r.choice(["int", "str", "float", "list", "none", "bool"]), d)
            e = e.replace('"', "'")
            conv = ""
            if self.on("fstring_conversion") and r.random() < 0.3:
                conv = r.choice(["!r", "!s", "!a"])
                self.features.add("fstring_conversion")
            spec = ""
            if r.random() < 0.3:
                spec = ":" + r.choice([">6", "<4", "^5", "", "{" + self.T(self.small_int()) + "}"])
            if "'" in e and spec:
                spec = ""
            parts.append("{" + e + conv + spec + "}")
        body = "".join(parts)
        if '"' in body or "\\" in body:
            return None
        return 'f"' + body + '"'

    # -- bytes
    def _bytes_bin(self, d):
        self.nodes.add("BinOp")
        return f"({self.expr('bytes', d)} + {self.expr('bytes', d)})"

    def _bytes_call(self, d):
        self.nodes.add("Call")
        return f"{self.expr('str', d)}.encode()"

    # -- list
    def _list_display(self, d):
        self.nodes.add("List")
        r = self.rng
        items = []
        for _ in range(r.randint(0, 4)):
            if r.random() < 0.2:
                self.nodes.add("Starred")
                items.append("*" + self.expr(r.choice(["list", "tuple", "str"]), d))
            else:
                items.append(self.expr(r.choice(["int", "str", "int", "none", "tuple"]), d))
        return "[" + ", ".join(items) + "]"

    def _list_bin(self, d):
        self.nodes.add("BinOp")
        if self.rng.random() < 0.7:
            return f"({self.expr('list', d)} + {self.expr('list', d)})"
        return f"({self.expr('list', d)} * {self.small_int()})"

    def _list_call(self, d):
        self.nodes.add("Call")
        r = self.rng
        return r.choice(
            [
                f"list({self.expr(r.choice(['tuple', 'str', 'list']), d)})",
                f"sorted({self.expr(r.choice(['list', 'set', 'tuple']), d)})",
                f"list(range({self.small_int()}, {self.expr('int', d)} % 7))",
                f"list(zip({self.expr('list', d)}, {self.expr('tuple', d)}))",
                f"list(enumerate({self.expr('str', d)}))",
                f"{self.expr('str', d)}.split({self.expr('str', d)} or None)",
                f"list(reversed({self.expr('list', d)}))",
                f"list({self.expr('dict', d)}.items())",
            ]
        )

    def _list_slice(self, d):
        self.nodes.add("Slice")
        r = self.rng
        lo = self.expr("int", d) if r.random() < 0.6 else ""
        hi = self.expr("int", d) if r.random() < 0.6 else ""
        st = (":" + self.T(r.choice(["1", "2", "-1", "-2"]))) if r.random() < 0.4 else ""
        return f"{self.expr('list', d)}[{lo}:{hi}{st}]"

    def _comp_source(self, d):
        r = self.rng
        k = r.random()
        if k < 0.4:
            return f"range({self.small_int()}, {r.choice(['3', '4', '5'])})", "int"
        if k < 0.7:
            return self.expr("list", d), "any"
        if k < 0.85:
            return self.expr("str", d), "str"
        return f"sorted({self.expr('set', d)})", "any"

    def _comp_clauses(self, d):
        """Return (clauses_src, [(varname, kind)])."""
        r = self.rng
        clauses = []
        bound = []
        # only a comprehension that is not inside another one may reuse a program variable as its loop variable (inside
        # another comprehension CPython's inlined scopes make the name local to the outer one: C03's known finding)
        nested = getattr(self, "in_comp", 0) > 0
        self.in_comp = getattr(self, "in_comp", 0) + 1
        for gi in range(r.choice([1, 1, 1, 2])):
            src, ek = self._comp_source(d)
            name = f"c{self.newtag()}"
            if gi == 0 and not nested and self.vars and r.random() < 0.2 and self.on("comprehension_outer_falsy_shadow"):
                # the loop variable shadows a variable of the program (whatever it holds, falsy values too): it must be intact afterwards
                name = r.choice(sorted(self.vars))
                self.features.add("comprehension_outer_falsy_shadow")
            bound.append((name, ek))
            clause = f"for {name} in {src}"
            if r.random() < 0.4:
                cond_var = name
                if ek == "int":
                    clause += f" if {self.T(cond_var)} % 2 == {r.choice(['0', '1'])}"
                else:
                    clause += f" if {self.T(cond_var)}"
            clauses.append(clause)
        return " ".join(clauses), bound

    def _elt_from(self, bound, d):
        r = self.rng
        name, ek = r.choice(bound)
        k = r.random()
        if k < 0.35:
            return self.T(name)
        if k < 0.55 and ek == "int":
            return f"({self.T(name)} * {self.expr('int', d)})"
        if k < 0.62:
            return f"({self.T(name)}, {self._int_fresh_display_mutated(d)})"
        if k < 0.7:
            return f"({self.T(name)}, {self.expr('int', d)})"
        if k < 0.8 and self.on("lambda_in_comprehension"):
            self.features.add("lambda_in_comprehension")
            self.nodes.add("Lambda")
            return f"(lambda: {name})()"
        return f"str({self.T(name)})"

    def _listcomp(self, d):
        self.nodes.add("ListComp")
        clauses, bound = self._comp_clauses(d)
        return f"[{self._elt_from(bound, d)} for {clauses[4:]}]" if clauses.startswith("for ") else None

    def _list_nested_comp(self, d):
        self.nodes.add("ListComp")
        inner = self._listcomp(max(d - 1, 0))
        if inner is None:
            return None
        return f"[{inner} for n{self.newtag()} in range({self.small_int()})]"

    # -- tuple
    def _tuple_display(self, d):
        self.nodes.add("Tuple")
        r = self.rng
        n = r.randint(0, 3)
        items = []
        for _ in range(n):
            if r.random() < 0.2:
                self.nodes.add("Starred")
                items.append("*" + self.expr(r.choice(["list", "tuple"]), d))
            else:
                items.append(self.expr(r.choice(["int", "str", "bool"]), d))
        return "(" + ", ".join(items) + ("," if n == 1 else "") + ")"

    def _tuple_call(self, d):
        self.nodes.add("Call")
        r = self.rng
        return r.choice(
            [
                f"tuple({self.expr(r.choice(['list', 'str']), d)})",
                f"divmod({self.expr('int', d)}, {self.expr('int', d)})",
                f"({self.expr('tuple', d)} + {self.expr('tuple', d)})",
            ]
        )

    def _call_F(self, d):
        """F(*a, **k) returns (a, k): argument passing and evaluation order."""
        self.nodes.add("Call")
        r = self.rng
        pos, kws = [], []
        for _ in range(r.randint(0, 3)):
            if r.random() < 0.2:
                # the unpacked operand is kept well-typed: *where* CPython reports a non-iterable star operand relative to
                # later arguments depends on its bytecode shape, which is not part of the property
                self.nodes.add("Starred")
                keep, self.illtyped = self.illtyped, 0.0
                pos.append("*" + self.T(self.const(r.choice(["list", "tuple"]))))
                self.illtyped = keep
            else:
                pos.append(self.expr(r.choice(["int", "str"]), d))
        for i in range(r.randint(0, 3)):
            if r.random() < 0.2:
                # (sometimes the mapping repeats an explicit keyword, before or after it: TypeError after everything was evaluated)
                key = f"d{i}" if r.random() < 0.8 else f"k{r.randint(0, 2)}"
                kws.append("**{" + f"'{key}': {self.expr('int', d)}" + "}")
            else:
                kws.append(f"k{i}={self.expr(r.choice(['int', 'str']), d)}")
        pe = any(self.effectful(p) for p in pos)
        ke = any(self.effectful(k) for k in kws)
        if pe and ke:
            if not self.on("call_effectful_kw_and_pos"):
                kws = [k for k in kws if not self.effectful(k)]
            else:
                self.features.add("call_effectful_kw_and_pos")
        return f"F({', '.join(pos + kws)})"

    # -- dict
    def _dict_display(self, d):
        self.nodes.add("Dict")
        r = self.rng
        items = []
        for i in range(r.randint(0, 3)):
            if r.random() < 0.2:
                items.append("**" + self.hashable("dict", d))
                continue
            k = self.hashable(r.choice(["str", "int"]), d)
            v = self.expr(r.choice(["int", "str", "list"]), d)
            if self.effectful(k) and self.effectful(v):
                if not self.on("dict_display_effectful_pair"):
                    k = self.const(r.choice(["str", "int"]))
                else:
                    self.features.add("dict_display_effectful_pair")
            items.append(f"{k}: {v}")
        return "{" + ", ".join(items) + "}"

    def _dict_call(self, d):
        self.nodes.add("Call")
        return self.rng.choice(
            [
                f"dict(a={self.expr('int', d)}, b={self.expr('str', d)})",
                f"dict(zip({self.expr('str', d)}, {self.expr('list', d)}))",
                f"({self.expr('dict', d)} | {self.expr('dict', d)})",
            ]
        )

    def _dictcomp(self, d):
        self.nodes.add("DictComp")
        clauses, bound = self._comp_clauses(d)
        name, _ = bound[0]
        return f"{{str({self.T(name)}): {self._elt_from(bound, d)} {clauses}}}"

    # -- set
    def _set_display(self, d):
        self.nodes.add("Set")
        return "{" + ", ".join(self.hashable(self.rng.choice(["int", "str"]), d) for _ in range(self.rng.randint(1, 3))) + "}"

    def _set_bin(self, d):
        self.nodes.add("BinOp")
        return f"({self.expr('set', d)} {self.rng.choice(['|', '&', '-', '^'])} {self.expr('set', d)})"

    def _set_call(self, d):
        self.nodes.add("Call")
        return f"set({self.expr(self.rng.choice(['list', 'str', 'tuple']), d)})"

    def _setcomp(self, d):
        self.nodes.add("SetComp")
        clauses, bound = self._comp_clauses(d)
        return f"{{{self._elt_from(bound, d)} {clauses}}}"

    # -- none
    def _none_call(self, d):
        self.nodes.add("Call")
        return f"{self.expr('list', d)}.append({self.expr('int', d)})"

    # ---- statements ---------------------------------------------------------
    def stmt(self):
        self.in_comp = 0
        return self._stmt()

    def _stmt(self):
        r = self.rng
        k = r.random()
        d = r.randint(1, self.maxdepth)
        if k < 0.34:
            return self.s_assign(d)
        if k < 0.50:
            return self.s_unpack(d)
        if k < 0.66:
            return self.s_augassign(d)
        if k < 0.74:
            return self.s_subscript_store(d)
        if k < 0.80:
            return self.s_attr(d)
        if k < 0.87:
            return self.s_delete(d)
        if k < 0.92:
            return self.s_annassign(d)
        self.nodes.add("Expr")
        return self.T(self.any_expr(d), force=True)

    def s_assign(self, d):
        self.nodes.add("Assign")
        kind = self.kind()
        e = self.expr(kind, d)
        n = self.rng.choice([1, 1, 1, 2, 3])
        names = [self.fresh(kind) for _ in range(n)]
        return " = ".join(names) + " = " + e

    def s_unpack(self, d):
        self.nodes.add("Assign")
        r = self.rng
        n = r.randint(1, 4)
        kinds = [r.choice(["int", "str", "list"]) for _ in range(n)]
        vals = [self.expr(k, d) for k in kinds]
        rhs = r.choice(["({})", "[{}]"]).format(", ".join(vals) + ("," if n == 1 else ""))
        m = n if r.random() < 0.8 else max(1, n + r.choice([-1, 1]))
        names = []
        star_at = r.randrange(m) if r.random() < 0.3 else None
        for i in range(m):
            if i == star_at:
                names.append("*" + self.fresh("list"))
                self.nodes.add("Starred")
            else:
                names.append(self.fresh(kinds[i] if i < n else "int"))
        if r.random() < 0.25 and m >= 2:
            # nested target
            names = [names[0], "(" + ", ".join(names[1:]) + ("," if len(names) == 2 else "") + ")"]
            rest = ", ".join(vals[1:]) + ("," if len(vals) == 2 else "")
            rhs = f"({vals[0]}, ({rest}))" if len(vals) >= 2 else rhs
        use_list = r.random() < 0.2 and self.on("list_target")
        if use_list:
            self.features.add("list_target")
            lhs = "[" + ", ".join(names) + "]"
        else:
            lhs = ", ".join(names) + ("," if len(names) == 1 else "")
        return f"{lhs} = {rhs}"

    def s_augassign(self, d):
        self.nodes.add("AugAssign")
        r = self.rng
        kind = r.choice(["int", "int", "float", "str", "list", "set", "tuple"])
        name = self.pick_var(kind)
        pre = ""
        if name is None:
            name = self.fresh(kind)
            pre = f"{name} = {self.const(kind)}\n"
        ops = {"int": ["+", "-", "*", "//", "%", "|", "&", "^"], "float": ["+", "-", "*", "/"], "str": ["+"], "list": ["+"], "set": ["|", "&", "-"], "tuple": ["+"]}[kind]
        if kind in ("list", "set"):
            # in-place operators mutate: visible through aliases
            if not self.on("augassign_mutable_alias"):
                alias = None
            else:
                alias = self.fresh(kind)
                pre += f"{alias} = {name}\n"
                self.features.add("augassign_mutable_alias")
        return pre + f"{name} {r.choice(ops)}= {self.expr(kind, d)}"

    def s_subscript_aug_element(self, d):
        """`c[i] op= v` where c is immutable, holds mutable elements, or logs its item accesses: the element is read once,
        the (possibly in-place) operator runs, and the result is always stored back - even when it is the same object."""
        self.nodes.add("Subscript")
        self.nodes.add("AugAssign")
        r = self.rng
        name = self.fresh("tuple")
        self.vars.pop(name, None)  # not a candidate for other statements (its kind is mixed)
        alias = self.fresh("list")
        self.vars.pop(alias, None)
        cont, idxs, valid = r.choice(
            [
                ("([1], 2, 's', [3, 4])", [0, 1, 2, 3, 5, -1], {0, 1, 2, 3, -1}),
                ("[[1], 2, 's', (5,)]", [0, 1, 2, 3, 4, -4], {0, 1, 2, 3, -4}),
                ("'abc'", [0, 1, 3], {0, 1}),
                ("TL([1], 2, 's', (5,))", [0, 1, 2, 3, 4, -1], {0, 1, 2, 3, -1}),
                ("{'a': [1], 'b': 2, 'c': 's'}", ["'a'", "'b'", "'c'", "'zz'"], {"'a'", "'b'", "'c'"}),
                ("b'ab'", [0, 2], {0}),
            ]
        )
        i = r.choice(idxs)
        rhs = r.choice(["[9]", "[]", "0", "1", "''", "'x'", "(6,)", "()", self.expr(r.choice(["int", "list", "str"]), min(d, 1))])
        op = r.choice(["+", "+", "+", "*", "-"])
        keep = f"{alias} = {name}[{i}]\n" if i in valid else ""  # an alias shows whether the operator worked in place
        return f"{name} = {cont}\n{keep}{name}[{i}] {op}= {rhs}"

    def s_subscript_store(self, d):
        if self.rng.random() < 0.25:
            return self.s_subscript_aug_element(d)
        self.nodes.add("Subscript")
        r = self.rng
        kind = r.choice(["list", "dict"])
        name = self.pick_var(kind)
        pre = ""
        if name is None:
            name = self.fresh(kind)
            pre = f"{name} = " + ("[1, 2, 3]" if kind == "list" else "{'a': 1, 'b': 2}") + "\n"
        idx = self.expr("int", d) if kind == "list" else self.expr("str", d)
        k = r.random()
        if k < 0.5:
            return pre + f"{name}[{idx}] = {self.expr('int', d)}"
        if k < 0.8:
            self.nodes.add("AugAssign")
            if self.effectful(idx):
                if not self.on("augassign_effectful_target"):
                    idx = "0" if kind == "list" else "'a'"
                else:
                    self.features.add("augassign_effectful_target")
            return pre + f"{name}[{idx}] += {self.expr('int', d)}"
        self.nodes.add("Delete")
        return pre + f"del {name}[{idx}]"

    def s_attr(self, d):
        self.nodes.add("Attribute")
        r = self.rng
        name = self.pick_var("box")
        pre = ""
        if name is None:
            name = self.fresh("box")
            pre = f"{name} = Box(x=1, y='s')\n"
        k = r.random()
        if k < 0.4:
            return pre + f"{name}.{r.choice(['x', 'y', 'z'])} = {self.expr(r.choice(['int', 'str']), d)}"
        if k < 0.6:
            self.nodes.add("AugAssign")
            return pre + f"{name}.x += {self.expr('int', d)}"
        if k < 0.8:
            v = self.fresh("int")
            return pre + f"{v} = {self.T(name)}.{r.choice(['x', 'y', 'w'])}"
        if self.on("del_attribute"):
            self.features.add("del_attribute")
            self.nodes.add("Delete")
            return pre + f"del {name}.{r.choice(['x', 'q'])}"
        return pre + f"{name}.x = {self.expr('int', d)}"

    def s_delete(self, d):
        self.nodes.add("Delete")
        r = self.rng
        names = [n for n in self.vars if self.vars[n] != "box"]
        if not names:
            return self.s_assign(d)
        if r.random() < 0.15:
            return "del undefined_name_q"
        if len(names) >= 2 and r.random() < 0.25 and self.on("del_tuple"):
            a, b = r.sample(names, 2)
            self.vars.pop(a)
            self.vars.pop(b)
            self.features.add("del_tuple")
            return f"del ({a}, {b})"
        if len(names) >= 2 and r.random() < 0.3:
            a, b = r.sample(names, 2)
            self.vars.pop(a)
            self.vars.pop(b)
            return f"del {a}, {b}"
        lists = [n for n in names if self.vars[n] == "list"]
        if lists and r.random() < 0.3 and self.on("del_tuple"):
            # nested targets are deleted in source order, before the targets that follow them
            v = r.choice(lists)
            self.features.add("del_tuple")
            return f"del ({v}[{self.T('0', force=True)}],), {v}[{self.T(r.choice(['0', '1', '-1']), force=True)}]"
        a = r.choice(names)
        self.vars.pop(a)
        return f"del {a}"

    def s_annassign(self, d):
        self.nodes.add("AnnAssign")
        kind = self.rng.choice(["int", "str", "list"])
        name = self.fresh(kind)
        if self.rng.random() < 0.2:
            self.vars.pop(name)
            return f"{name}: {kind}"
        if self.rng.random() < 0.5:
            # the annotation is an expression too: at module level it is evaluated after the value has been assigned
            return f"{name}: {self.T(kind, force=True)} = {self.expr(kind, d)}"
        return f"{name}: {kind} = {self.expr(kind, d)}"

    def program(self, nstmts):
        lines = []
        for _ in range(nstmts):
            lines.append(self.stmt())
        # read everything back through the tracer so values are observed in a fixed order
        return "\n".join(lines) + "\n"


def _install_forms():
    G = Gen
    common = lambda k: [G._ifexp(None, k), G._boolop(None, k), G._named(None, k), G._lambda(None, k), G._dict_get(None, k)]  # noqa: E731
    G.forms_int = [G._int_bin, G._int_bin, G._int_pow, G._int_shift, G._int_unary, G._int_len, G._int_call, G._sub_seq, G._int_fresh_display_mutated] + common("int")
    G.forms_float = [G._float_bin, G._float_bin, G._float_call, G._truediv] + common("float")
    G.forms_bool = [G._cmp, G._cmp, G._in, G._is_none, G._not, G._bool_call] + common("bool")
    G.forms_none = [G._none_call] + common("none")
    G.forms_str = [G._str_bin, G._str_call, G._str_call, G._str_sub, G._fstring, G._fstring] + common("str")
    G.forms_bytes = [G._bytes_bin, G._bytes_call] + common("bytes")
    G.forms_list = [G._list_display, G._list_bin, G._list_call, G._list_slice, G._listcomp, G._listcomp, G._list_nested_comp] + common("list")
    G.forms_tuple = [G._tuple_display, G._tuple_call, G._call_F, G._call_F] + common("tuple")
    G.forms_dict = [G._dict_display, G._dict_display, G._dict_call, G._dictcomp] + common("dict")
    G.forms_set = [G._set_display, G._set_bin, G._set_call, G._setcomp] + common("set")


_install_forms()


# ------------------------------------------------------------------ bounded-exhaustive tables
VALS = {
    "int": ["3", "-2"],
    "float": ["2.5", "-0.5"],
    "bool": ["True", "False"],
    "none": ["None", "None"],
    "str": ["'ab'", "''"],
    "bytes": ["b'xy'", "b''"],
    "list": ["[1, 2]", "[]"],
    "tuple": ["(1, 'a')", "()"],
    "dict": ["{'a': 1}", "{}"],
    "set": ["{1, 2}", "set()"],
}
BINOPS = ["+", "-", "*", "/", "//", "%", "**", "<<", ">>", "|", "^", "&", "@"]
CMPOPS = ["==", "!=", "<", "<=", ">", ">=", "in", "not in", "is", "is not"]
UNOPS = ["-", "+", "~", "not "]


def table_programs():
    """operator x ordered pair of operand kinds x 2 representative values (well- and ill-typed alike)."""
    out = []
    t = [0]

    def tag():
        t[0] += 1
        return t[0]

    for ka in KINDS:
        for kb in KINDS:
            for vi in (0, 1):
                a, b = VALS[ka][vi], VALS[kb][1 - vi if ka == kb else vi]
                for op in BINOPS:
                    if op == "**" and ka in ("int", "float", "bool") and kb in ("int", "float", "bool"):
                        pass
                    out.append(f"r = T({tag()}, {a}) {op} T({tag()}, {b})\n")
                    out.append(f"x = T({tag()}, {a})\nx {op}= T({tag()}, {b})\n")
                for op in CMPOPS:
                    if op in ("is", "is not") and not (a == "None" or b == "None"):
                        continue
                    out.append(f"r = T({tag()}, {a}) {op} T({tag()}, {b})\n")
                # subscript kind x index kind
                out.append(f"r = T({tag()}, {a})[T({tag()}, {b})]\n")
                out.append(f"x = T({tag()}, {a})\nx[T({tag()}, {b})] = T({tag()}, 9)\n")
                out.append(f"x = T({tag()}, {a})\ndel x[T({tag()}, {b})]\n")
    for ka in KINDS:
        for v in VALS[ka]:
            for op in UNOPS:
                out.append(f"r = {op}T({tag()}, {v})\n")
            out.append(f"r = T({tag()}, {v})[T({tag()}, 0):T({tag()}, 1)]\n")
            out.append(f"r = T({tag()}, {v})[::T({tag()}, -1)]\n")
            out.append(f"r = T({tag()}, 1) if T({tag()}, {v}) else T({tag()}, 2)\n")
            out.append(f"r = T({tag()}, {v}) and T({tag()}, 7) or T({tag()}, {v})\n")
            out.append(f"a, b = T({tag()}, {v})\n")
            out.append(f"a, *b = T({tag()}, {v})\n")
            out.append(f"r = [q for q in T({tag()}, {v})]\n")
            out.append(f"r = f\"<{{T({tag()}, {v})}}>\"\n")
            out.append(f"r = F(*T({tag()}, {v}))\n")
            out.append(f"r = F(**T({tag()}, {v}))\n")
            out.append(f"r = len(T({tag()}, {v}))\n")
    return out
