"""Residue snapshots: what pyscript currently has registered with Home Assistant and in its own tables."""

from __future__ import annotations

import asyncio


def snapshot(w) -> dict:
    from custom_components.pyscript.event import Event
    from custom_components.pyscript.function import Function
    from custom_components.pyscript.global_ctx import GlobalContextMgr
    from custom_components.pyscript.mqtt import Mqtt
    from custom_components.pyscript.state import State
    from custom_components.pyscript.webhook import Webhook

    hass = w.hass
    snap = {}
    snap["bus_listeners"] = {k: v for k, v in sorted(hass.bus.async_listeners().items()) if v}
    services = hass.services.async_services()
    snap["services"] = sorted(f"{d}.{s}" for d, svcs in services.items() for s in svcs)
    snap["state_notify"] = {k: len(v) for k, v in sorted(State.notify.items()) if v}
    snap["event_notify"] = {k: len(v) for k, v in sorted(Event.notify.items()) if v}
    snap["event_notify_remove"] = sorted(Event.notify_remove)
    snap["mqtt_notify"] = {k: len(v) for k, v in sorted(Mqtt.notify.items()) if v}
    snap["webhook_notify"] = {k: len(v) for k, v in sorted(Webhook.notify.items()) if v}
    snap["broker_subs"] = sorted(s[1] for s in w.broker.subs) if w.broker else []
    wh = hass.data.get("webhook") or {}
    snap["webhooks"] = sorted(wh) if isinstance(wh, dict) else []
    snap["our_tasks"] = len(Function.our_tasks)
    snap["task2cb"] = len(Function.task2cb)
    snap["task2context"] = len(Function.task2context)
    snap["unique_name2task"] = sorted(Function.unique_name2task)
    snap["unique_task2name"] = len(Function.unique_task2name)
    snap["service_cnt"] = {k: v for k, v in sorted(Function.service_cnt.items()) if v}
    snap["service2global_ctx"] = dict(sorted(Function.service2global_ctx.items()))
    snap["contexts"] = sorted(GlobalContextMgr.contexts)
    tasks = []
    for t in asyncio.all_tasks(w.loop):
        if t.done():
            continue
        coro = t.get_coro()
        code = getattr(coro, "cr_code", None)
        fn = getattr(code, "co_filename", "") or ""
        if "custom_components/pyscript" in fn:
            # run_coro wraps every pyscript task: look one level down for what it is running
            inner = getattr(coro, "cr_await", None)
            name = code.co_qualname
            for _ in range(3):
                ic = getattr(inner, "cr_code", None)
                if ic is None:
                    break
                name += ">" + ic.co_qualname
                inner = getattr(inner, "cr_await", None)
            tasks.append(name)
    snap["pyscript_tasks"] = sorted(tasks)
    return snap


def diff(a: dict, b: dict) -> dict:
    """Keys whose values differ (a = observed, b = baseline)."""
    out = {}
    for k in sorted(set(a) | set(b)):
        if a.get(k) != b.get(k):
            out[k] = {"observed": a.get(k), "baseline": b.get(k)}
    return out
