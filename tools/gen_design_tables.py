#!/venv/bin/python
"""Regenerate the generated blocks of DESIGN.md (checks, findings, catch table)."""
import glob, importlib, json, os, re, sys

sys.path.insert(0, "/verif")
V = "/verif"


def block_checks():
    out = []
    for n in range(1, 21):
        pid = f"C{n:02d}"
        path = f"{V}/vf/checks/{pid.lower()}.py"
        if not os.path.exists(path):
            continue
        mod = importlib.import_module(f"vf.checks.{pid.lower()}")
        ns = {k: getattr(mod, k) for k in ("LEVEL", "QUICK_CASES", "BUDGET", "FLOOR", "REQUIRED_OBS", "RULE", "ASSUMPTIONS") if hasattr(mod, k)}
        out.append(f"**{pid}** — level `{ns.get('LEVEL')}`; quick = {ns.get('QUICK_CASES', 'whole finite generator')} generator items, thorough = {ns.get('BUDGET', {}).get('thorough')} s; floor {ns.get('FLOOR')}; must-observe counters: {', '.join(ns.get('REQUIRED_OBS', []))}.\n")
        out.append(f"*Workload and oracle:* {ns.get('RULE', '')}\n")
        if ns.get("ASSUMPTIONS"):
            out.append("*Scoping:* " + "; ".join(ns["ASSUMPTIONS"]) + ".\n")
    return "\n".join(out)


def block_findings():
    d = json.load(open(f"{V}/known_findings.json"))["findings"]
    out = ["| property | status | key (mechanism) | commit | what |", "|---|---|---|---|---|"]
    for e in sorted(d, key=lambda e: (e["property"], e["status"], e["key"])):
        out.append(f"| {e['property']} | {e['status']} | `{e['key']}` | {e.get('commit', '—')} | {e['what'].replace('|', '/')} |")
    return "\n".join(out)


def block_catch():
    out = ["| change | what it is | needs (short) | caught by (violating cases / cases in the quick tier; mechanisms reported) |", "|---|---|---|---|"]
    for p in sorted(glob.glob(f"{V}/seeded/*/meta.json")):
        m = json.load(open(p))
        runs = []
        for cid, r in sorted(m.get("check_runs", {}).items()):
            if r.get("caught"):
                runs.append(f"**{cid}** {r['violated']}/{r['cases']} ({', '.join(r['mechanisms_in_replays'][:3])})")
            else:
                runs.append(f"{cid}: not caught")
        note = m.get("note", "")
        if m.get("applies_to_head", {}).get("applies") is False:
            runs.append("patch no longer applies to HEAD")
        needs = (m.get("needs_short") or m.get("needs_to_manifest", "")).replace("\n", " ").replace("|", "/")
        out.append(f"| {m['id']} | {m['title'].replace('|', '/')[:160]} | {needs[:220]} | {'; '.join(runs)} {note} |")
    return "\n".join(out)


s = open(f"{V}/DESIGN.md").read()
for name, fn in (("checks", block_checks), ("findings", block_findings), ("catch", block_catch)):
    a, b = f"<!-- BEGIN GENERATED {name} -->", f"<!-- END GENERATED {name} -->"
    i, j = s.index(a) + len(a), s.index(b)
    s = s[:i] + "\n" + fn() + "\n" + s[j:]
open(f"{V}/DESIGN.md", "w").write(s)
print("ok")
