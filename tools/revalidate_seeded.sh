#!/bin/sh
# Re-validate every seeded mutant against the current /repo HEAD: patch applies, demo fails with it, passes without, pinned suite 88/88.
for d in /verif/seeded/*/; do
  m=$(basename $d); wt=/tmp/mw/reval-$m; mkdir -p /tmp/mw
  git -C /repo worktree add --detach $wt HEAD >/dev/null 2>&1 || { echo "$m: worktree failed"; continue; }
  demo=$(ls $d/demo_test.py $d/demo*.py 2>/dev/null | head -1)
  cp $demo $wt/demo_test.py
  if grep -q "def test_" $wt/demo_test.py; then run="-q -p no:cacheprovider -x demo_test.py"; else run="--script demo_test.py"; fi
  /verif/tools/wt_pytest.py $wt $run >/dev/null 2>&1; clean=$?
  if git -C $wt apply $d/patch.diff 2>/dev/null; then
    /verif/tools/wt_pytest.py $wt $run >/dev/null 2>&1; mut=$?
    /verif/tools/wt_pytest.py $wt -q -p no:cacheprovider --timeout=900 --junitxml=$wt/junit.xml >/dev/null 2>&1
    base=$(/verif/tools/check_baseline.py $wt/junit.xml | cut -c1-60)
    echo "$m: applies demo_clean_rc=$clean demo_mutant_rc=$mut $base"
  else
    echo "$m: PATCH DOES NOT APPLY (demo_clean_rc=$clean)"
  fi
  git -C /repo worktree remove --force $wt
done
