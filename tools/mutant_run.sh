#!/bin/sh
# usage: tools/mutant_run.sh <patch.diff> <check id> [extra ./check args]
# Applies a seeded change to a scratch worktree of /repo HEAD (outside /repo and /verif), runs the
# check against it (VERIF_REPO), prints the verdict and removes the worktree again.
patch="$(realpath "$1")"; id="$2"; shift 2
wt="/tmp/mw/$(basename "$(dirname "$patch")")-$$"
mkdir -p /tmp/mw
git -C /repo worktree add --detach "$wt" HEAD >/dev/null 2>&1 || exit 3
if ! git -C "$wt" apply "$patch"; then echo "PATCH DOES NOT APPLY"; git -C /repo worktree remove --force "$wt"; exit 3; fi
VERIF_REPO="$wt" /verif/check "$id" --no-evidence "$@" 2>&1 | grep -E "^\[|VIOLATION|INCONCLUSIVE|KNOWN" | head -12
rc=$?
git -C /repo worktree remove --force "$wt"
exit $rc
