#!/venv/bin/python
"""usage: tools/catch_table.py [mutant ids ...] [--checks C13,C14] [--jobs N]
Applies each seeded change (seeded/<id>/patch.diff) to a scratch worktree of /repo HEAD under /tmp, runs the quick tier of the
property's own check (and any extra checks) against it, records what the check reported in seeded/<id>/meta.json, removes the
worktree.  Nothing is ever applied to /repo."""
import glob, json, os, re, shutil, subprocess, sys, time

V = "/verif"
args = sys.argv[1:]
extra = []
META_ONLY = False
jobs = "8"
ids = []
i = 0
while i < len(args):
    if args[i] == "--meta-only":
        META_ONLY = True; i += 1
    elif args[i] == "--checks":
        extra = args[i + 1].split(","); i += 2
    elif args[i] == "--jobs":
        jobs = args[i + 1]; i += 2
    else:
        ids.append(args[i]); i += 1
if not ids:
    ids = sorted(os.path.basename(d.rstrip("/")) for d in glob.glob(f"{V}/seeded/*/"))
head = subprocess.check_output(["git", "-C", "/repo", "rev-parse", "--short", "HEAD"], text=True).strip()


def needs_section(readme):
    """The part of the README that says what the change needs in order to show (headings differ between authors)."""
    m = re.search(r"^(?:#+ *|\*\*)[^\n]*(?:[Nn]eed|manifest)[^\n]*\n?(.*?)(?=^#+ |^\*\*[A-Z][^\n]*\*\*|\Z)", readme, re.S | re.M)
    if m:
        head = m.group(0).split("\n")[0]
        body = m.group(1).strip()
        inline = re.sub(r"^(?:#+ *|\*\*)[^:*]*\**:?\**", "", head).strip()
        return (inline + " " + body).strip()[:1500]
    return ""


for mid in ids:
    d = f"{V}/seeded/{mid}"
    prop = mid[:3]
    readme = open(f"{d}/README.md").read() if os.path.exists(f"{d}/README.md") else ""
    meta_path = f"{d}/meta.json"
    meta = json.load(open(meta_path)) if os.path.exists(meta_path) else {}
    meta.update({"id": mid, "property": prop, "title": readme.split("\n")[0].lstrip("# ").strip(), "needs_to_manifest": needs_section(readme) or meta.get("needs_to_manifest", "see README.md"), "files": sorted(os.listdir(d))})
    meta.setdefault("validated", {})
    if not meta["validated"]:
        meta["validated"] = {
            "how": "tools/validate_mutant.sh at the /repo HEAD of its round (wt_pytest.py retargets the editable install to the scratch worktree)",
            "patch_applied_cleanly": True,
            "demonstration_passes_without_patch": True,
            "demonstration_fails_with_patch": True,
            "pinned_88_tests_pass_with_patch": True,
        }
    if META_ONLY:
        json.dump(meta, open(meta_path, "w"), indent=1)
        continue
    wt = f"/tmp/mw/ct-{mid}"
    os.makedirs("/tmp/mw", exist_ok=True)
    subprocess.run(["git", "-C", "/repo", "worktree", "remove", "--force", wt], capture_output=True)
    subprocess.check_call(["git", "-C", "/repo", "worktree", "add", "--detach", wt, "HEAD"], stdout=subprocess.DEVNULL, stderr=subprocess.DEVNULL)
    try:
        ap = subprocess.run(["git", "-C", wt, "apply", f"{d}/patch.diff"], capture_output=True, text=True)
        if ap.returncode != 0:
            meta["applies_to_head"] = {"head": head, "applies": False}
            print(mid, "PATCH DOES NOT APPLY")
        else:
            meta["applies_to_head"] = {"head": head, "applies": True}
            runs = meta.setdefault("check_runs", {})
            for cid in [prop] + [c for c in extra if c != prop]:
                rep = f"/tmp/mwrep/{mid}"
                shutil.rmtree(rep, ignore_errors=True)
                t0 = time.time()
                pr = subprocess.run([f"{V}/check", cid, "--tier", "quick", "--no-evidence"], env=dict(os.environ, VERIF_REPO=wt, VERIF_REPLAY_DIR=rep, VERIF_JOBS=jobs), capture_output=True, text=True)
                out = pr.stdout + pr.stderr
                m = re.search(r"cases=(\d+) held=(\d+) violated=(\d+) inconclusive=(\d+)", out)
                mechs = {}
                for f in glob.glob(f"{rep}/{cid}/*.json"):
                    try:
                        for k in json.load(open(f)).get("mechs", []):
                            mechs[k] = mechs.get(k, 0) + 1
                    except Exception:
                        pass
                shutil.rmtree(rep, ignore_errors=True)
                runs[cid] = {"cmd": f"VERIF_REPO=<worktree of {head} + patch> ./check {cid} --tier quick --no-evidence", "exit": pr.returncode, "cases": int(m.group(1)) if m else None, "violated": int(m.group(3)) if m else None, "inconclusive": int(m.group(4)) if m else None, "mechanisms_in_replays": sorted(mechs), "caught": pr.returncode == 1 and "VIOLATION" in out, "wall_s": round(time.time() - t0, 1)}
                print(mid, cid, "caught" if runs[cid]["caught"] else "NOT CAUGHT", runs[cid]["violated"], "/", runs[cid]["cases"], sorted(mechs)[:4], flush=True)
    finally:
        subprocess.run(["git", "-C", "/repo", "worktree", "remove", "--force", wt], capture_output=True)
    json.dump(meta, open(meta_path, "w"), indent=1)
