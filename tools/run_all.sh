#!/bin/sh
# usage: tools/run_all.sh <tier> <seed> [ids...]   — run checks one after another, print the verdict lines
# (uses the check launcher next to this script, so it also works inside a `vp run` snapshot; VERIF_JOBS limits the workers)
here="$(cd "$(dirname "$0")/.." && pwd)"
tier="${1:-quick}"; seed="${2:-0}"; shift 2 2>/dev/null
ids="${*:-C01 C02 C03 C04 C05 C06 C07 C08 C09 C10 C11 C12 C13 C14 C15 C16 C17 C18 C19 C20}"
out="${RUN_ALL_OUT:-/tmp}"
for id in $ids; do
  VERIF_SEED=$seed "$here/check" $id --tier $tier > "$out/run_all.$tier.$seed.$id.log" 2>&1; rc=$?
  echo "$id rc=$rc $(grep -E '^\[C..\] tier' "$out/run_all.$tier.$seed.$id.log" | cut -c1-150) $(grep -cE '^VIOLATION' "$out/run_all.$tier.$seed.$id.log") viol $(grep -E '^INCONCLUSIVE' "$out/run_all.$tier.$seed.$id.log" | cut -c1-200)"
done
