#!/bin/sh
# usage: tools/run_all.sh <tier> <seed> [ids...]   — run checks one after another, print the verdict lines
tier="${1:-quick}"; seed="${2:-0}"; shift 2 2>/dev/null
ids="${*:-C01 C02 C03 C04 C05 C06 C07 C08 C09 C10 C11 C12 C13 C14 C15 C16 C17 C18 C19 C20}"
for id in $ids; do
  VERIF_SEED=$seed /verif/check $id --tier $tier > /tmp/run_all.$id.log 2>&1; rc=$?
  echo "$id rc=$rc $(grep -E '^\[C..\] tier' /tmp/run_all.$id.log | cut -c1-150) $(grep -cE '^VIOLATION' /tmp/run_all.$id.log) viol $(grep -E '^INCONCLUSIVE' /tmp/run_all.$id.log | cut -c1-200)"
done
