#!/venv/bin/python
"""usage: tools/diff_triage.py <C01|C02|C03> <n_batches> [seed]  — find CPython/pyscript diffs, shrink by statement removal, group."""
import os, sys, re, collections, importlib, asyncio, random
sys.path.insert(0, '/verif')
from vf import repo_first; repo_first()
from vf.warm import warm; warm()
from vf import interp
pid=sys.argv[1]; nb=int(sys.argv[2]); seed=sys.argv[3] if len(sys.argv)>3 else '0'
mod=importlib.import_module(f'vf.checks.{pid.lower()}')
fam = getattr(mod, 'FAMILIES', False)
async def differs(src):
    py=interp.run_cpython(src, extra={'pyscript_compile': (lambda f: f)})
    if 'compile_error' in py: return None
    ps=await interp.run_pyscript(src)
    d=interp.compare(py,ps,families=fam)
    return d[0] if d else None
import ast, copy
def _bodies(tree):
    for node in ast.walk(tree):
        for fld in ('body','orelse','finalbody','handlers'):
            b=getattr(node,fld,None)
            if isinstance(b,list) and b and isinstance(b[0],(ast.stmt,ast.excepthandler)):
                yield node,fld
async def shrink(src, kind):
    cur=src
    for _round in range(40):
        tree=ast.parse(cur)
        spots=[(n,f,i) for n,f in _bodies(tree) for i in range(len(getattr(n,f)))]
        done=True
        for idx in range(len(spots)):
            t2=ast.parse(cur)
            sp=[(n,f,i) for n,f in _bodies(t2) for i in range(len(getattr(n,f)))]
            n,f,i=sp[idx]
            st=getattr(n,f)[i]
            if isinstance(st,(ast.While,)) : continue
            if isinstance(st,ast.AugAssign) and isinstance(st.target,ast.Name) and st.target.id.startswith('c') and st.target.id[1:].isdigit(): continue
            lst=getattr(n,f); del lst[i]
            if not lst and f=='body': lst.append(ast.Pass())
            try: cand=ast.unparse(ast.fix_missing_locations(t2))+"\n"
            except Exception: continue
            d=await differs(cand)
            if d and d[0]==kind:
                cur=cand; done=False; break
        if done: break
    return cur
def norm(s):
    s=re.sub(r'T\(\d+, ','T(#, ',s); s=re.sub(r'\b[vcn]\d+\b','v',s); s=re.sub(r'\b\d+(\.\d+)?\b','N',s); s=re.sub(r"'[^']*'","S",s)
    return s
groups=collections.defaultdict(list)
async def main(w):
    if '--replays' in sys.argv:
        import glob, json
        for pth in sorted(glob.glob(f'/verif/replays/{pid}/*.json')):
            src=json.load(open(pth))['case']['programs'][0]
            d=await differs(src)
            if d:
                small=await shrink(src,d[0]); d2=await differs(small)
                groups[(d2[0], norm(d2[1])[:90])].append((small,d2[1]))
        return
    gen=mod.generate('quick', int(seed), gated=set(os.environ.get('GATED','').split(','))) if os.environ.get('GATED') else mod.generate('quick', int(seed))
    cnt=0; tot=0
    for case in gen:
        if case.get('stream')=='table' and pid=='C01' and '--table' not in sys.argv: continue
        cnt+=1
        if cnt>nb: break
        for src,meta in mod.programs_of(case):
            tot+=1
            d=await differs(src)
            if d:
                small=await shrink(src,d[0])
                d2=await differs(small)
                groups[(d2[0], norm(d2[1])[:90] if '--bymsg' in sys.argv else norm(small))].append((small,d2[1]))
    print("programs",tot,"diff groups",len(groups))
interp.run_batch_in_world(main)
lim=int(__import__('os').environ.get('TOP','40'))
for (k,n),lst in sorted(groups.items(), key=lambda kv:((-len(kv[1])) if '--bymsg' in sys.argv else len(kv[0][1]), -len(kv[1])))[:lim]:
    print(f"--- {len(lst)}x {k}: {lst[0][1][:200]}")
    print(lst[0][0].rstrip())
