#!/venv/bin/python
"""usage: tools/diff_triage.py <C01|C02|C03> <n_batches> [seed]  — find CPython/pyscript diffs, shrink by statement removal, group."""
import sys, re, collections, importlib, asyncio, random
sys.path.insert(0, '/verif')
from vf import repo_first; repo_first()
from vf.warm import warm; warm()
from vf import interp
pid=sys.argv[1]; nb=int(sys.argv[2]); seed=sys.argv[3] if len(sys.argv)>3 else '0'
mod=importlib.import_module(f'vf.checks.{pid.lower()}')
fam = getattr(mod, 'FAMILIES', False)
async def differs(src):
    py=interp.run_cpython(src)
    if 'compile_error' in py: return None
    ps=await interp.run_pyscript(src)
    d=interp.compare(py,ps,families=fam)
    return d[0] if d else None
async def shrink(src, kind):
    lines=src.rstrip('\n').split('\n')
    changed=True
    while changed and len(lines)>1:
        changed=False
        for i in range(len(lines)):
            if '+= 1' in lines[i] or lines[i].strip().startswith(('def ','while ','for ')): continue
            cand=lines[:i]+lines[i+1:]
            d=await differs('\n'.join(cand)+'\n')
            if d and d[0]==kind:
                lines=cand; changed=True; break
    return '\n'.join(lines)+'\n'
def norm(s):
    s=re.sub(r'T\(\d+, ','T(#, ',s); s=re.sub(r'\b[vcn]\d+\b','v',s); s=re.sub(r'\b\d+(\.\d+)?\b','N',s); s=re.sub(r"'[^']*'","S",s)
    return s
groups=collections.defaultdict(list)
async def main(w):
    gen=mod.generate('quick', int(seed)) if True else None
    cnt=0; tot=0
    for case in gen:
        if case.get('stream')=='table' and pid=='C01' and '--table' not in sys.argv: continue
        cnt+=1
        if cnt>nb: break
        for src,meta in mod.programs_of(case):
            tot+=1
            d=await differs(src)
            if d:
                small=await shrink(src,d[0])
                d2=await differs(small)
                groups[(d2[0], norm(small))].append((small,d2[1]))
    print("programs",tot,"diff groups",len(groups))
interp.run_batch_in_world(main)
lim=int(__import__('os').environ.get('TOP','40'))
for (k,n),lst in sorted(groups.items(), key=lambda kv:(len(kv[0][1]), -len(kv[1])))[:lim]:
    print(f"--- {len(lst)}x {k}: {lst[0][1][:200]}")
    print(lst[0][0].rstrip())
