#!/venv/bin/python
"""usage: tools/add_fixed.py <property> <key> <commit-subject-substring> <what>"""
import json,subprocess,sys
prop,key,sub,what=sys.argv[1:5]
log=subprocess.run(["git","-C","/repo","log","--format=%h %s","bd1a45a..HEAD"],capture_output=True,text=True).stdout.strip().split("\n")
commit=[l.split()[0] for l in log if sub in l][0]
d=json.load(open("/verif/known_findings.json"))
d["findings"]=[f for f in d["findings"] if not (f["property"]==prop and f["key"]==key)]
d["findings"].append(dict(property=prop,key=key,status="fixed",commit=commit,what=what,line=f"fixed: property={prop} {commit} {what}"))
json.dump(d,open("/verif/known_findings.json","w"),indent=1)
print("added", prop, key, commit)
