#!/venv/bin/python
"""Run pytest (or any python script) so that `custom_components.pyscript` resolves to a given worktree.

usage: wt_pytest.py <worktree> [pytest args...]
       wt_pytest.py <worktree> --script file.py [args...]
The /venv editable install pins custom_components -> /repo; inside pytest even PYTHONPATH
does not win (the HA test plugin provides its own `custom_components` package and the editable
finder then resolves children to /repo).  This launcher retargets the finder first.
"""
import os
import runpy
import sys

wt = os.path.abspath(sys.argv[1])
rest = sys.argv[2:]
import __editable___custom_components_0_0_0_finder as f  # noqa: E402

f.MAPPING["custom_components"] = os.path.join(wt, "custom_components")
f.NAMESPACES = {k: [p.replace("/repo", wt) for p in v] for k, v in f.NAMESPACES.items()}
sys.path.insert(0, wt)
os.chdir(wt)
if rest and rest[0] == "--script":
    sys.argv = rest[1:]
    runpy.run_path(rest[1], run_name="__main__")
else:
    import pytest

    sys.exit(pytest.main(rest))
