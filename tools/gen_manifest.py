#!/venv/bin/python
"""Regenerate /verif/MANIFEST.json from the table below (checks that exist) + not_applicable."""
import json
import os

V = "/verif"
CHECKS = {
    "C01": ("differential oracle against CPython on generated straight-line programs (tracer log, final globals, exception type)", "DESIGN 2/C01"),
    "C02": ("differential oracle against CPython on exhaustive/random control-flow skeletons (tracer log, result/exception)", "DESIGN 2/C02"),
    "C03": ("differential oracle against CPython on signature x call-shape tables and random multi-function programs", "DESIGN 2/C03"),
    "C04": ("reference-model monitor over recorded runs of generated @state_trigger scripts x event histories, both subsystems", "DESIGN 2/C04"),
    "C05": ("reference-timeline monitor (virtual clock) over all check_now/hold/hold_false cells x timed histories, both subsystems", "DESIGN 2/C05"),
    "C06": ("independent calendar oracle + metamorphic relations on timer_trigger_next; running @time_trigger windows on a virtual clock", "DESIGN 2/C06"),
    "C07": ("independent window/cron matcher + hold_off model vs recorded runs of guarded triggers; direct matcher calls at edges", "DESIGN 2/C07"),
    "C08": ("exactly-once / order / own-task / context-parent checkers over recorded runs and a bus tap for generated message sequences", "DESIGN 2/C08"),
    "C09": ("generation monitor + residue (listener/subscription/service/task) diff against a calibrated baseline over lifetime histories", "DESIGN 2/C09"),
    "C10": ("reload reference model vs load records of generated file trees and edit/reload histories", "DESIGN 2/C10"),
    "C11": ("differential oracle against CPython importing the same generated multi-file programs", "DESIGN 2/C11"),
    "C12": ("service-registry reference model vs hass.services and recorded calls over define/redefine/delete/reload histories", "DESIGN 2/C12"),
    "C13": ("sequential ownership model replayed over the observed order of task.unique calls; snapshots at quiescent points", "DESIGN 2/C13"),
    "C14": ("exactly-once callback / registry-residue / independence monitors with cancellation injected at every suspension point", "DESIGN 2/C14"),
    "C15": ("composed trigger reference models for task.wait_until + residue diff on every exit path incl. injected cancellation", "DESIGN 2/C15"),
    "C16": ("dictionary model of hass.states checked after every generated state operation", "DESIGN 2/C16"),
    "C17": ("allow-list predicate over every installed top-level module x import form x option; CPython import as oracle when allowed", "DESIGN 2/C17"),
    "C18": ("traceback differential against CPython + log/escape monitors for faults injected at every user-code entry point", "DESIGN 2/C18"),
    "C19": ("byte-equality over all fragmentations for ZMTP framing; independent wire-level HMAC/correlation checker on a real Kernel", "DESIGN 2/C19"),
    "C20": ("pin-selection reference + permutation metamorphic relation + install decision table with stubbed installer", "DESIGN 2/C20"),
}
LEVELS = {}
import re as _re
for _f in os.listdir(f"{V}/vf/checks"):
    if _f.endswith(".py") and _f.startswith("c"):
        _m = _re.search(r'^LEVEL = "(\w+)"', open(f"{V}/vf/checks/{_f}").read(), _re.M)
        if _m:
            LEVELS[_f[:-3].upper()] = _m.group(1)
NA_REASON = "check not built yet in this session (design in DESIGN.md section 2); nothing is claimed for it"

props = [json.loads(l) for l in open(f"{V}/properties.jsonl")]
checks, na = [], []
for p in props:
    pid = p["id"]
    if os.path.exists(f"{V}/vf/checks/{pid.lower()}.py") and pid in CHECKS and not os.path.exists(f"{V}/vf/checks/{pid.lower()}.disabled"):
        tech, ref = CHECKS[pid]
        checks.append(
            {
                "property_id": pid,
                "quick_cmd": f"./check {pid} --tier quick",
                "thorough_cmd": f"./check {pid} --tier thorough",
                "evidence_file": f"/verif/evidence/{pid}.json",
                "replay_cmd_template": f"./check {pid} --replay {{path}}",
                "engine": "vf",
                "level_claimed": {
                    "category": LEVELS.get(pid, "exploration"),
                    "text": "Runtime monitoring: the real pyscript code (and, for trigger properties, a real in-process Home Assistant on a virtual "
                    "clock) is driven with generated workloads and an independent oracle judges every execution; the property held on the "
                    "executions reported in the evidence file, nothing more. Sampling, not proof, is the right level for universally quantified "
                    "behavioural properties of an interpreter/scheduler with unbounded input spaces.",
                    "design_ref": ref,
                },
                "level_note": "trusted: CPython 3.12, homeassistant 2025.1.4 core + pytest-homeassistant-custom-component's test hass, the virtual-clock "
                "event loop (vf/sim.py), the reference model of the check; cases share a worker process with pyscript's class state reset between "
                "cases, and every violation is re-confirmed alone in a fresh interpreter before it is reported",
                "technique": "runtime monitoring: " + tech,
            }
        )
    else:
        na.append({"property_id": pid, "reason": NA_REASON})

fixes = os.popen("git -C /repo log --format=%H bd1a45a..HEAD").read().split()
manifest = {
    "version": 1,
    "setup_cmd": "/venv/bin/python -m compileall -q vf >/dev/null && /venv/bin/python -c 'import sys; sys.path.insert(0, \"/repo\"); import custom_components.pyscript'",
    "hooks": {
        "guard": "PYSCRIPT_VERIF",
        "enable": "no source hooks are needed: every observation point is reached from outside (Function.register for the recorder, module "
        "attributes for the clock, HA's public bus/state/service APIs); the guard name is reserved and unused by the source tree",
        "baseline_off_cmd": "cd /repo && /venv/bin/python -m pytest -ra -q -p no:cacheprovider --timeout=900 --continue-on-collection-errors",
        "source_commits": [],
        "add_only": True,
    },
    "engines": [
        {
            "name": "vf",
            "path": "/verif/vf",
            "serves_properties": [c["property_id"] for c in checks],
            "kind_free_text": "python harness: real HA + pyscript in-process on a virtual clock, exec'd worker pool, generators, reference models, "
            "differential oracles, residue monitors; ./check <ID> --tier quick|thorough",
        }
    ],
    "checks": checks,
    "not_applicable": na,
    "notes": "fix: commits in /repo (genuine defects found by these checks, see known_findings.json): " + ", ".join(f[:7] for f in fixes),
}
json.dump(manifest, open(f"{V}/MANIFEST.json", "w"), indent=1)
print("checks:", [c["property_id"] for c in checks], "na:", len(na))
