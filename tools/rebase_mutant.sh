#!/bin/sh
# usage: tools/rebase_mutant.sh <seeded dir> '<sed expression applied to the file>' <file relative to repo>
# Re-creates a seeded patch on the current /repo HEAD after fix: commits changed the context lines; re-validates the demo.
d=$(realpath "$1"); expr="$2"; f="$3"
wt=/tmp/mw/rebase-$$; mkdir -p /tmp/mw; git -C /repo worktree add --detach $wt HEAD >/dev/null 2>&1
sed -i "$expr" $wt/$f
[ -f $d/patch.orig-bd1a45a.diff ] || cp $d/patch.diff $d/patch.orig-bd1a45a.diff
git -C $wt diff -- custom_components > $d/patch.diff
echo "--- new patch:"; cat $d/patch.diff | grep '^[-+]' 
cp $d/demo_test.py $wt/demo_test.py
echo "demo with patch:"; /verif/tools/wt_pytest.py $wt -q -p no:cacheprovider -x demo_test.py 2>&1 | tail -1
git -C $wt checkout -- custom_components
echo "demo clean:"; /verif/tools/wt_pytest.py $wt -q -p no:cacheprovider -x demo_test.py 2>&1 | tail -1
git -C /repo worktree remove --force $wt
