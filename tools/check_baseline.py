#!/venv/bin/python
"""usage: check_baseline.py junit.xml  -> prints which of the 88 pinned tests did not pass"""
import json, sys, xml.etree.ElementTree as ET
base = set(json.load(open("/root/.vp/BASELINE.json"))["stable_pass"])
ok = set()
for tc in ET.parse(sys.argv[1]).getroot().iter("testcase"):
    name = f'{tc.get("classname")}::{tc.get("name")}'
    if not any(c.tag in ("failure", "error", "skipped") for c in tc):
        ok.add(name)
missing = sorted(base - ok)
print(f"pinned={len(base)} passed_of_pinned={len(base & ok)} not_passing={missing}")
sys.exit(1 if missing else 0)
