#!/venv/bin/python
"""usage: tools/runcase.py <ID> '<case json>' | @file  — run one case in-process and print the result (debug aid)."""
import sys, json, importlib
sys.path.insert(0,'/verif')
from vf import repo_first; repo_first()
pid=sys.argv[1]; arg=sys.argv[2]
case=json.load(open(arg[1:])) if arg.startswith('@') else json.loads(arg)
case=case.get('case',case)
mod=importlib.import_module(f'vf.checks.{pid.lower()}'); mod.warm()
r=mod.run_case(case)
for v in r.get('violations',[]): print('*',v['mech'],'::',v['msg'][:int(__import__('os').environ.get('W','1500'))])
print({k:v for k,v in r.items() if k not in ('violations','cover','unit_keys','nontrivial_keys')})
if hasattr(mod,'sample'): print(json.dumps(mod.sample(case,r),indent=1,default=repr)[:int(__import__('os').environ.get('S','2500'))])
