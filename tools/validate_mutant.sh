#!/bin/sh
# usage: tools/validate_mutant.sh <ID> <n>   (agent output in /tmp/wt/<ID>/MUTANT/<n>)
# Confirms: demo passes on clean worktree, fails with patch; pinned suite 88/88 with patch.
id="$1"; n="$2"; wt=/tmp/wt/$id; m=$wt/MUTANT/$n
git -C $wt checkout -q -- custom_components 2>/dev/null
git -C $wt checkout -q --detach $(git -C /repo rev-parse HEAD) 2>/dev/null
demo=$(ls $m/demo_test.py $m/demo*.py 2>/dev/null | head -1)
run_demo() { if grep -q "def test_" "$demo"; then /verif/tools/wt_pytest.py $wt -q -p no:cacheprovider -x "$demo" >/tmp/vm-$id-$n.$1.log 2>&1; else /verif/tools/wt_pytest.py $wt --script "$demo" >/tmp/vm-$id-$n.$1.log 2>&1; fi; echo $?; }
clean=$(run_demo clean)
git -C $wt apply $m/patch.diff || { echo "$id-$n: PATCH DOES NOT APPLY"; exit 1; }
mut=$(run_demo mut)
/verif/tools/wt_pytest.py $wt -q -p no:cacheprovider --timeout=900 --junitxml=/tmp/vm-$id-$n.junit.xml >/dev/null 2>&1
base=$(/verif/tools/check_baseline.py /tmp/vm-$id-$n.junit.xml)
git -C $wt checkout -q -- custom_components
echo "$id-$n: demo_clean_rc=$clean demo_mutant_rc=$mut baseline: $base"
if [ "$clean" = "0" ] && [ "$mut" != "0" ] && echo "$base" | grep -q "passed_of_pinned=88 not_passing=\[\]"; then
  d=/verif/seeded/$id-$n; mkdir -p $d; cp $m/patch.diff $d/; cp "$demo" $d/; cp $m/README.md $d/ 2>/dev/null
  echo "$id-$n: VALID -> $d"
else echo "$id-$n: INVALID"; fi
rm -f /tmp/vm-$id-$n.junit.xml
