#!/venv/bin/python
import json,glob,sys
pid=sys.argv[1]; n=int(sys.argv[2]) if len(sys.argv)>2 else 6; w=int(sys.argv[3]) if len(sys.argv)>3 else 900
for p in sorted(glob.glob(f'/verif/replays/{pid}/*.json'))[:n]:
    d=json.load(open(p))
    c=d['case']
    print('==',p, d['mechs'], 'legacy=',c.get('legacy'), 'wall=',d['result'].get('wall'))
    for v in d['result'].get('violations',[])[:3]: print('   *', v['mech'], str(v['msg'])[:w].replace('\\n','\n'))
