#!/venv/bin/python
"""usage: tools/survey.py <ID> <ncases> [keyexpr]  — run N generated cases, group violations (debug aid)."""
import sys, collections, importlib, itertools, json
sys.path.insert(0, '/verif')
from vf.pool import run_cases
pid=sys.argv[1]; n=int(sys.argv[2])
mod=importlib.import_module(f'vf.checks.{pid.lower()}')
keyf=eval("lambda c,r,v: "+sys.argv[3]) if len(sys.argv)>3 else (lambda c,r,v: (v['mech'],))
groups=collections.defaultdict(list); tot=collections.Counter()
def on(c,r):
    tot[r.get('verdict')]+=1
    if r.get('verdict')=='inconclusive': groups[('INCONCLUSIVE',str(r.get('why'))[:80])].append((c,r,{'msg':r.get('tb','')}))
    for v in r.get('violations',[]):
        groups[keyf(c,r,v)].append((c,r,v))
_g=frozenset(x for x in __import__('os').environ.get('GATED','').split(',') if x)
run_cases(mod.__name__, itertools.islice(mod.generate('quick',int(__import__('os').environ.get('VERIF_SEED','0')),**({'gated':_g} if _g else {})), n), on_result=on, timeout=getattr(mod,'TIMEOUT',60))
print(dict(tot))
for k,lst in sorted(groups.items(), key=lambda kv:-len(kv[1])):
    print(len(lst), k)
    print('      e.g.', str(lst[0][2].get('msg'))[:int(__import__('os').environ.get('W','500'))])
json.dump({str(k):[x[0] for x in lst[:3]] for k,lst in groups.items()}, open('/tmp/survey.json','w'), default=repr)
