#!/venv/bin/python
"""usage: tools/add_known.py <property> <key> <gate-or-''> <what> <witness-json>"""
import json,sys
prop,key,gate,what,wit=sys.argv[1:6]
d=json.load(open("/verif/known_findings.json"))
d["findings"]=[f for f in d["findings"] if not (f["property"]==prop and f["key"]==key)]
d["findings"].append(dict(property=prop,key=key,status="known",gate=gate or None,what=what,witness=json.loads(wit)))
json.dump(d,open("/verif/known_findings.json","w"),indent=1)
print("added known", prop, key)
